(* Proofs about the object graph (Model/World.v): C14 — no hidden sharing. *)
From Coq Require Import ZArith NArith List Bool Arith Lia.
From Coq Require Import Floats.SpecFloat.
From Cfi Require Import Glue.Sx Py.PyStr Py.PyNum Py.PyBits Py.PyDate Model.Field Model.Line Model.LineRun Model.World.
From Cfi Require Import Proofs.FieldProofs Proofs.LineProofs.
Import ListNotations.

(* the repaired code *)
Definition stepR := step true.

(* separation: every list object has exactly one owner (a register or a handed-out result), every container exactly
   one file, and all references are in range *)
Definition Sep (w : world) : Prop :=
  NoDup (map snd (regs w) ++ results w) /\
  NoDup (files w) /\
  Forall (fun l => l < length (lists w)) (map snd (regs w) ++ results w) /\
  Forall (fun c => c < length (conts w)) (files w) /\
  (* container 0 is the one created at class-definition time; the repaired code never hands it to a file *)
  ~ In 0 (files w) /\ 0 < length (conts w).

(* which objects an operation addresses *)
Definition touches_list (w : world) (o : wop) (l : nat) : Prop :=
  match o with OMutList l' _ _ => l' = l | _ => False end.
Definition touches_reg (w : world) (o : wop) (r : nat) : Prop :=
  match o with
  | ORegRead r' _ => r' = r
  | OMutList l _ _ => l = snd (get (0, 0) r (regs w))
  | _ => False
  end.
Definition touches_result (w : world) (o : wop) (k : nat) : Prop :=
  match o with OMutList l _ _ => l = get 0 k (results w) | _ => False end.
Definition touches_file (w : world) (o : wop) (f : nat) : Prop :=
  match o with OAppend f' | ORemoveLast f' => f' = f | OMove fa fb => fa = f \/ fb = f | _ => False end.

(* ===== generic facts about upd / get ===== *)

Lemma upd_nil : forall A n (a : A), upd n a [] = [].
Proof. intros A n a. destruct n; reflexivity. Qed.
Lemma upd_0_cons : forall A (a x : A) l, upd 0 a (x :: l) = a :: l.
Proof. reflexivity. Qed.
Lemma upd_S_cons : forall A n (a x : A) l, upd (S n) a (x :: l) = x :: upd n a l.
Proof. reflexivity. Qed.

Lemma upd_length : forall A n (a : A) l, length (upd n a l) = length l.
Proof.
  intros A n a l. revert n. induction l as [|x l IH]; intros n.
  - rewrite upd_nil. reflexivity.
  - destruct n as [|n].
    + reflexivity.
    + rewrite upd_S_cons. simpl. rewrite IH. reflexivity.
Qed.

Lemma get_upd_ne : forall A (d : A) m n a l, m <> n -> get d m (upd n a l) = get d m l.
Proof.
  intros A d m n a l. revert m n. induction l as [|x l IH]; intros m n Hne.
  - rewrite upd_nil. reflexivity.
  - destruct n as [|n].
    + rewrite upd_0_cons. destruct m as [|m]; [congruence | reflexivity].
    + rewrite upd_S_cons. destruct m as [|m]; [reflexivity |].
      unfold get in *. simpl. apply IH. congruence.
Qed.

Lemma get_upd_eq : forall A (d : A) n a l, n < length l -> get d n (upd n a l) = a.
Proof.
  intros A d n a l. revert n. induction l as [|x l IH]; intros n Hlt.
  - simpl in Hlt. lia.
  - destruct n as [|n].
    + reflexivity.
    + rewrite upd_S_cons. unfold get in *. simpl. apply IH. simpl in Hlt. lia.
Qed.

Lemma get_app_lt : forall A (d : A) m l a, m < length l -> get d m (l ++ [a]) = get d m l.
Proof. intros A d m l a Hlt. unfold get. apply app_nth1. exact Hlt. Qed.

Lemma get_app_len : forall A (d : A) l a, get d (length l) (l ++ [a]) = a.
Proof. intros A d l a. unfold get. apply nth_middle. Qed.

Lemma map_upd : forall A B (f : A -> B) n a l, map f (upd n a l) = upd n (f a) (map f l).
Proof.
  intros A B f n a l. revert n. induction l as [|x l IH]; intros n.
  - rewrite !upd_nil. reflexivity.
  - destruct n as [|n].
    + reflexivity.
    + rewrite upd_S_cons. change (map f (x :: l)) with (f x :: map f l). rewrite upd_S_cons.
      change (map f (x :: upd n a l)) with (f x :: map f (upd n a l)). rewrite IH. reflexivity.
Qed.

Lemma upd_app_l : forall A n (a : A) l1 l2, n < length l1 -> upd n a l1 ++ l2 = upd n a (l1 ++ l2).
Proof.
  intros A n a l1 l2. revert n. induction l1 as [|x l1 IH]; intros n Hlt.
  - simpl in Hlt. lia.
  - destruct n as [|n].
    + reflexivity.
    + change ((x :: l1) ++ l2) with (x :: (l1 ++ l2)). rewrite !upd_S_cons.
      change ((x :: upd n a l1) ++ l2) with (x :: (upd n a l1 ++ l2)). rewrite IH by (simpl in Hlt; lia). reflexivity.
Qed.

Lemma In_upd : forall A n (a x : A) l, In x (upd n a l) -> x = a \/ In x l.
Proof.
  intros A n a x l. revert n. induction l as [|y l IH]; intros n Hin.
  - rewrite upd_nil in Hin. destruct Hin.
  - destruct n as [|n].
    + rewrite upd_0_cons in Hin. destruct Hin as [Hin | Hin]; [left; congruence | right; right; exact Hin].
    + rewrite upd_S_cons in Hin. destruct Hin as [Hin | Hin].
      * right. left. exact Hin.
      * destruct (IH n Hin) as [Hx | Hx]; [left; exact Hx | right; right; exact Hx].
Qed.

Lemma NoDup_upd : forall A n (a : A) l, NoDup l -> ~ In a l -> NoDup (upd n a l).
Proof.
  intros A n a l. revert n. induction l as [|y l IH]; intros n Hnd Hni.
  - rewrite upd_nil. constructor.
  - inversion Hnd as [|y' l' Hy Hnd']; subst.
    destruct n as [|n].
    + rewrite upd_0_cons. constructor.
      * intro Hin. apply Hni. right. exact Hin.
      * exact Hnd'.
    + rewrite upd_S_cons. constructor.
      * intro Hin. apply In_upd in Hin. destruct Hin as [Hin | Hin].
        -- apply Hni. left. exact Hin.
        -- apply Hy. exact Hin.
      * apply IH; [exact Hnd' |]. intro Hin. apply Hni. right. exact Hin.
Qed.

Lemma Forall_upd : forall A (P : A -> Prop) n a l, Forall P l -> P a -> Forall P (upd n a l).
Proof.
  intros A P n a l HF Ha. apply Forall_forall. intros x Hin.
  apply In_upd in Hin. destruct Hin as [Hx | Hx].
  - subst x. exact Ha.
  - rewrite Forall_forall in HF. apply HF. exact Hx.
Qed.

Lemma nth_error_get : forall A (d : A) l n x, nth_error l n = Some x -> get d n l = x /\ n < length l.
Proof.
  intros A d l n x Hn. split.
  - unfold get. apply nth_error_nth. exact Hn.
  - apply nth_error_Some. rewrite Hn. discriminate.
Qed.

Lemma NoDup_insert : forall A (a : A) l1 l2, NoDup (l1 ++ l2) -> ~ In a (l1 ++ l2) -> NoDup (l1 ++ a :: l2).
Proof.
  intros A a l1 l2. induction l1 as [|x l1 IH]; intros Hnd Hni.
  - simpl in *. constructor; assumption.
  - simpl in *. inversion Hnd as [|x' l' Hx Hnd']; subst. constructor.
    + intro Hin. apply in_app_or in Hin. destruct Hin as [Hin | [Hin | Hin]].
      * apply Hx. apply in_or_app. left. exact Hin.
      * apply Hni. left. symmetry. exact Hin.
      * apply Hx. apply in_or_app. right. exact Hin.
    + apply IH; [exact Hnd' |]. intro Hin. apply Hni. right. exact Hin.
Qed.

Lemma NoDup_snoc : forall A (a : A) l, NoDup l -> ~ In a l -> NoDup (l ++ [a]).
Proof.
  intros A a l Hnd Hni. apply NoDup_insert; rewrite app_nil_r; assumption.
Qed.

Lemma fresh_not_in : forall n xs, Forall (fun l => l < n) xs -> ~ In n xs.
Proof.
  intros n xs HF Hin. rewrite Forall_forall in HF. apply HF in Hin. lia.
Qed.

Lemma Forall_lt_S : forall n xs, Forall (fun l => l < n) xs -> Forall (fun l => l < S n) xs.
Proof.
  intros n xs HF. eapply Forall_impl; [| exact HF]. intros a Ha. simpl in Ha. lia.
Qed.

Lemma snoc_length : forall A (l : list A) a, length (l ++ [a]) = S (length l).
Proof. intros A l a. rewrite app_length. simpl. lia. Qed.

Lemma Forall_get : forall A (P : A -> Prop) d n l, Forall P l -> n < length l -> P (get d n l).
Proof.
  intros A P d n l HF Hlt. rewrite Forall_forall in HF. apply HF. unfold get. apply nth_In. exact Hlt.
Qed.

(* ===== separation is an invariant ===== *)

Theorem sep_init : forall ls, Sep (init ls).
Proof.
  intros ls. unfold Sep, init. simpl.
  repeat split; try constructor.
  intros H; exact H.
Qed.

Theorem sep_step : forall w o, Sep w -> Sep (fst (stepR w o)).
Proof.
  intros w o HS. pose proof HS as HS0. destruct HS as [H1 [H2 [H3 [H4 [H5 H6]]]]].
  destruct o as [ln | r text | r | ln text | l i v | ln i v | | n | f | f | fa fb]; unfold stepR, step.
  - (* ONewReg *)
    unfold Sep. cbn [fst lines lists regs results conts files next_elem].
    rewrite map_app. cbn [map snd]. rewrite <- app_assoc. cbn [app]. rewrite snoc_length.
    repeat split; try assumption.
    + apply NoDup_insert; [exact H1 | apply fresh_not_in; exact H3].
    + apply Forall_app in H3. destruct H3 as [H3a H3b].
      apply Forall_app. split.
      * apply Forall_lt_S. exact H3a.
      * constructor; [lia | apply Forall_lt_S; exact H3b].
  - (* ORegRead *)
    destruct (nth_error (regs w) r) as [[ln k]|] eqn:En; [| exact HS0].
    destruct (lo_read (get empty_line ln (lines w)) text) as [lo' vals] eqn:El.
    unfold Sep. cbn [fst lines lists regs results conts files next_elem].
    apply (nth_error_get _ (0, 0)) in En. destruct En as [_ Hr].
    rewrite map_upd. cbn [snd]. rewrite upd_app_l by (rewrite map_length; exact Hr).
    rewrite snoc_length.
    repeat split; try assumption.
    + apply NoDup_upd; [exact H1 | apply fresh_not_in; exact H3].
    + apply Forall_upd; [apply Forall_lt_S; exact H3 | lia].
  - (* ORegWrite *)
    destruct (nth_error (regs w) r) as [[ln k]|] eqn:En; [| exact HS0].
    destruct (forallb _ _); [exact HS0 |].
    destruct (lo_write (get empty_line ln (lines w)) (get [] k (lists w))) as [lo' out] eqn:El.
    exact HS0.
  - (* OLineRead *)
    destruct (lo_read (get empty_line ln (lines w)) text) as [lo' vals] eqn:El.
    unfold Sep. cbn [fst lines lists regs results conts files next_elem].
    rewrite app_assoc. rewrite snoc_length.
    repeat split; try assumption.
    + apply NoDup_snoc; [exact H1 | apply fresh_not_in; exact H3].
    + apply Forall_app. split; [apply Forall_lt_S; exact H3 | constructor; [lia | constructor]].
  - (* OMutList *)
    unfold Sep. cbn [fst lines lists regs results conts files next_elem].
    rewrite upd_length. exact HS0.
  - (* OSetSlot *)
    exact HS0.
  - (* ONewFile *)
    unfold Sep. cbn [fst lines lists regs results conts files next_elem].
    rewrite snoc_length.
    repeat split; try assumption.
    + apply NoDup_snoc; [exact H2 | apply fresh_not_in; exact H4].
    + apply Forall_app. split; [apply Forall_lt_S; exact H4 | constructor; [lia | constructor]].
    + intro Hin. apply in_app_or in Hin. destruct Hin as [Hin | [Hin | []]]; [exact (H5 Hin) | lia].
    + lia.
  - (* OFileRead *)
    unfold Sep. cbn [fst lines lists regs results conts files next_elem].
    rewrite snoc_length.
    repeat split; try assumption.
    + apply NoDup_snoc; [exact H2 | apply fresh_not_in; exact H4].
    + apply Forall_app. split; [apply Forall_lt_S; exact H4 | constructor; [lia | constructor]].
    + intro Hin. apply in_app_or in Hin. destruct Hin as [Hin | [Hin | []]]; [exact (H5 Hin) | lia].
    + lia.
  - (* OAppend *)
    destruct (nth_error (files w) f) as [c|] eqn:En; [| exact HS0].
    unfold Sep. cbn [fst lines lists regs results conts files next_elem].
    rewrite upd_length. exact HS0.
  - (* ORemoveLast *)
    destruct (nth_error (files w) f) as [c|] eqn:En; [| exact HS0].
    cbv zeta. destruct (Nat.ltb 1 (length (get [] c (conts w)))); [| exact HS0].
    unfold Sep. cbn [fst lines lists regs results conts files next_elem].
    rewrite upd_length. exact HS0.
  - (* OMove *)
    destruct (nth_error (files w) fa) as [ca|] eqn:Ea; [| exact HS0].
    destruct (nth_error (files w) fb) as [cb|] eqn:Eb; [| exact HS0].
    destruct (get [] ca (conts w)) as [|e0 [|e [|e2 rest]]] eqn:Eg; try exact HS0.
    cbv zeta. unfold Sep. cbn [fst lines lists regs results conts files next_elem].
    rewrite !upd_length. exact HS0.
Qed.

(* hence along every operation history *)
Lemma sep_fold : forall ops w, Sep w -> Sep (fold_left (fun w o => fst (stepR w o)) ops w).
Proof.
  intros ops. induction ops as [|o ops IH]; intros w HS.
  - exact HS.
  - simpl. apply IH. apply sep_step. exact HS.
Qed.

Theorem sep_run : forall ops ls, Sep (fold_left (fun w o => fst (stepR w o)) ops (init ls)).
Proof.
  intros ops ls. apply sep_fold. apply sep_init.
Qed.

(* ===== frame ===== *)

Lemma reg_list_in_range : forall w r, Sep w -> r < length (regs w) ->
  snd (get (0, 0) r (regs w)) < length (lists w).
Proof.
  intros w r HS Hr. destruct HS as [_ [_ [H3 _]]].
  apply Forall_app in H3. destruct H3 as [H3a _].
  assert (Hg : snd (get (0, 0) r (regs w)) = get 0 r (map snd (regs w))).
  { unfold get. exact (eq_sym (map_nth snd (regs w) (0, 0) r)). }
  rewrite Hg. apply Forall_get; [exact H3a | rewrite map_length; exact Hr].
Qed.

Lemma result_list_in_range : forall w k, Sep w -> k < length (results w) ->
  get 0 k (results w) < length (lists w).
Proof.
  intros w k HS Hk. destruct HS as [_ [_ [H3 _]]].
  apply Forall_app in H3. destruct H3 as [_ H3b].
  apply Forall_get; assumption.
Qed.

Lemma file_cont_in_range : forall w f, Sep w -> f < length (files w) ->
  get 0 f (files w) < length (conts w).
Proof.
  intros w f HS Hf. destruct HS as [_ [_ [_ [H4 _]]]].
  apply Forall_get; assumption.
Qed.

Theorem frame_register : forall w o r, Sep w -> r < length (regs w) -> ~ touches_reg w o r ->
  obs_reg (fst (stepR w o)) r = obs_reg w r.
Proof.
  intros w o r HS Hr Ht. pose proof (reg_list_in_range w r HS Hr) as Hrange.
  destruct o as [ln | r' text | r' | ln text | l i v | ln i v | | n | f | f | fa fb]; unfold stepR, step.
  - (* ONewReg *)
    unfold obs_reg. cbn [fst lines lists regs results conts files next_elem].
    rewrite (get_app_lt _ (0, 0)) by exact Hr. apply get_app_lt. exact Hrange.
  - (* ORegRead *)
    destruct (nth_error (regs w) r') as [[ln k]|] eqn:En; [| reflexivity].
    destruct (lo_read (get empty_line ln (lines w)) text) as [lo' vals] eqn:El.
    unfold obs_reg. cbn [fst lines lists regs results conts files next_elem].
    simpl in Ht.
    rewrite get_upd_ne by (intro Heq; apply Ht; symmetry; exact Heq).
    apply get_app_lt. exact Hrange.
  - (* ORegWrite *)
    destruct (nth_error (regs w) r') as [[ln k]|] eqn:En; [| reflexivity].
    destruct (forallb _ _); [reflexivity |].
    destruct (lo_write (get empty_line ln (lines w)) (get [] k (lists w))) as [lo' out] eqn:El.
    reflexivity.
  - (* OLineRead *)
    destruct (lo_read (get empty_line ln (lines w)) text) as [lo' vals] eqn:El.
    unfold obs_reg. cbn [fst lines lists regs results conts files next_elem].
    apply get_app_lt. exact Hrange.
  - (* OMutList *)
    unfold obs_reg. cbn [fst lines lists regs results conts files next_elem].
    simpl in Ht. apply get_upd_ne. intro Heq. apply Ht. symmetry. exact Heq.
  - reflexivity.
  - reflexivity.
  - reflexivity.
  - destruct (nth_error (files w) f) as [c|]; reflexivity.
  - destruct (nth_error (files w) f) as [c|]; [| reflexivity].
    cbv zeta. destruct (Nat.ltb 1 (length (get [] c (conts w)))); reflexivity.
  - (* OMove: lists, registers and results are untouched *)
    destruct (nth_error (files w) fa) as [ca|]; [| reflexivity].
    destruct (nth_error (files w) fb) as [cb|]; [| reflexivity].
    destruct (get [] ca (conts w)) as [|e0 [|e [|e2 rest]]]; reflexivity.
Qed.

Theorem frame_result : forall w o k, Sep w -> k < length (results w) -> ~ touches_result w o k ->
  obs_result (fst (stepR w o)) k = obs_result w k.
Proof.
  intros w o k HS Hk Ht. pose proof (result_list_in_range w k HS Hk) as Hrange.
  destruct o as [ln | r' text | r' | ln text | l i v | ln i v | | n | f | f | fa fb]; unfold stepR, step.
  - (* ONewReg *)
    unfold obs_result. cbn [fst lines lists regs results conts files next_elem].
    apply get_app_lt. exact Hrange.
  - (* ORegRead *)
    destruct (nth_error (regs w) r') as [[ln k']|] eqn:En; [| reflexivity].
    destruct (lo_read (get empty_line ln (lines w)) text) as [lo' vals] eqn:El.
    unfold obs_result. cbn [fst lines lists regs results conts files next_elem].
    apply get_app_lt. exact Hrange.
  - (* ORegWrite *)
    destruct (nth_error (regs w) r') as [[ln k']|] eqn:En; [| reflexivity].
    destruct (forallb _ _); [reflexivity |].
    destruct (lo_write (get empty_line ln (lines w)) (get [] k' (lists w))) as [lo' out] eqn:El.
    reflexivity.
  - (* OLineRead *)
    destruct (lo_read (get empty_line ln (lines w)) text) as [lo' vals] eqn:El.
    unfold obs_result. cbn [fst lines lists regs results conts files next_elem].
    rewrite (get_app_lt _ 0) by exact Hk. apply get_app_lt. exact Hrange.
  - (* OMutList *)
    unfold obs_result. cbn [fst lines lists regs results conts files next_elem].
    simpl in Ht. apply get_upd_ne. intro Heq. apply Ht. symmetry. exact Heq.
  - reflexivity.
  - reflexivity.
  - reflexivity.
  - destruct (nth_error (files w) f) as [c|]; reflexivity.
  - destruct (nth_error (files w) f) as [c|]; [| reflexivity].
    cbv zeta. destruct (Nat.ltb 1 (length (get [] c (conts w)))); reflexivity.
  - (* OMove: lists, registers and results are untouched *)
    destruct (nth_error (files w) fa) as [ca|]; [| reflexivity].
    destruct (nth_error (files w) fb) as [cb|]; [| reflexivity].
    destruct (get [] ca (conts w)) as [|e0 [|e [|e2 rest]]]; reflexivity.
Qed.

Lemma other_file_other_cont : forall w f f' c, Sep w -> f < length (files w) ->
  nth_error (files w) f' = Some c -> f' <> f -> get 0 f (files w) <> c.
Proof.
  intros w f f' c HS Hf En Hne Heq.
  destruct HS as [_ [H2 _]].
  apply (nth_error_get _ 0) in En. destruct En as [Hg Hf'].
  apply Hne. unfold get in *. apply (NoDup_nth (files w) 0); try assumption.
  rewrite Hg. symmetry. exact Heq.
Qed.

Theorem frame_file : forall w o f, Sep w -> f < length (files w) -> ~ touches_file w o f ->
  obs_file (fst (stepR w o)) f = obs_file w f.
Proof.
  intros w o f HS Hf Ht. pose proof (file_cont_in_range w f HS Hf) as Hrange.
  destruct o as [ln | r' text | r' | ln text | l i v | ln i v | | n | f' | f' | fa fb]; unfold stepR, step.
  - reflexivity.
  - destruct (nth_error (regs w) r') as [[ln k']|] eqn:En; [| reflexivity].
    destruct (lo_read (get empty_line ln (lines w)) text) as [lo' vals] eqn:El.
    reflexivity.
  - destruct (nth_error (regs w) r') as [[ln k']|] eqn:En; [| reflexivity].
    destruct (forallb _ _); [reflexivity |].
    destruct (lo_write (get empty_line ln (lines w)) (get [] k' (lists w))) as [lo' out] eqn:El.
    reflexivity.
  - destruct (lo_read (get empty_line ln (lines w)) text) as [lo' vals] eqn:El.
    reflexivity.
  - reflexivity.
  - reflexivity.
  - (* ONewFile *)
    unfold obs_file. cbn [fst lines lists regs results conts files next_elem].
    rewrite (get_app_lt _ 0) by exact Hf. apply get_app_lt. exact Hrange.
  - (* OFileRead *)
    unfold obs_file. cbn [fst lines lists regs results conts files next_elem].
    rewrite (get_app_lt _ 0) by exact Hf. apply get_app_lt. exact Hrange.
  - (* OAppend *)
    destruct (nth_error (files w) f') as [c|] eqn:En; [| reflexivity].
    unfold obs_file. cbn [fst lines lists regs results conts files next_elem].
    simpl in Ht. apply get_upd_ne.
    apply (other_file_other_cont w f f' c HS Hf En). exact Ht.
  - (* ORemoveLast *)
    destruct (nth_error (files w) f') as [c|] eqn:En; [| reflexivity].
    cbv zeta. destruct (Nat.ltb 1 (length (get [] c (conts w)))); [| reflexivity].
    unfold obs_file. cbn [fst lines lists regs results conts files next_elem].
    simpl in Ht. apply get_upd_ne.
    apply (other_file_other_cont w f f' c HS Hf En). exact Ht.
  - (* OMove *)
    destruct (nth_error (files w) fa) as [ca|] eqn:Ea; [| reflexivity].
    destruct (nth_error (files w) fb) as [cb|] eqn:Eb; [| reflexivity].
    destruct (get [] ca (conts w)) as [|e0 [|e [|e2 rest]]] eqn:Eg; try reflexivity.
    cbv zeta. unfold obs_file. cbn [fst lines lists regs results conts files next_elem].
    simpl in Ht.
    assert (Hna : fa <> f) by (intro Heq; apply Ht; left; exact Heq).
    assert (Hnb : fb <> f) by (intro Heq; apply Ht; right; exact Heq).
    rewrite get_upd_ne by (apply (other_file_other_cont w f fb cb HS Hf Eb); exact Hnb).
    apply get_upd_ne.
    apply (other_file_other_cont w f fa ca HS Hf Ea). exact Hna.
Qed.

(* ===== reads and writes ===== *)

Theorem read_fresh : forall w r text ln l, Sep w -> nth_error (regs w) r = Some (ln, l) ->
  let w' := fst (stepR w (ORegRead r text)) in
  obs_reg w' r = snd (lo_read (get empty_line ln (lines w)) text) /\
  snd (get (0, 0) r (regs w')) = length (lists w) /\
  forall o2, same_config o2 (get empty_line ln (lines w)) -> snd (lo_read o2 text) = obs_reg w' r.
Proof.
  intros w r text ln l HS En. cbv zeta.
  pose proof (nth_error_get _ (0, 0) _ _ _ En) as [_ Hr].
  unfold stepR, step. rewrite En.
  destruct (lo_read (get empty_line ln (lines w)) text) as [lo' vals] eqn:El.
  unfold obs_reg. cbn [fst snd lines lists regs results conts files next_elem].
  rewrite get_upd_eq by exact Hr. cbn [snd]. rewrite get_app_len.
  split; [reflexivity |]. split; [reflexivity |].
  intros o2 Hc. rewrite (read_independent_of_slots _ _ text Hc). rewrite El. reflexivity.
Qed.

Theorem write_own_data : forall w r ln l o2, nth_error (regs w) r = Some (ln, l) ->
  same_config o2 (get empty_line ln (lines w)) ->
  length (lo_st o2) <= length (get [] l (lists w)) ->
  forallb (fun v => match v with VNone => true | _ => false end) (get [] l (lists w)) = false ->
  snd (stepR w (ORegWrite r)) = Some (snd (lo_write o2 (get [] l (lists w)))).
Proof.
  intros w r ln l o2 En Hc Hlen Hfb.
  unfold stepR, step. rewrite En. rewrite Hfb.
  rewrite (write_independent_of_slots _ _ _ Hc Hlen).
  destruct (lo_write (get empty_line ln (lines w)) (get [] l (lists w))) as [lo' out] eqn:El.
  reflexivity.
Qed.

Theorem write_changes_nothing : forall w r,
  let w' := fst (stepR w (ORegWrite r)) in
  lists w' = lists w /\ regs w' = regs w /\ results w' = results w /\ conts w' = conts w /\ files w' = files w.
Proof.
  intros w r. cbv zeta. unfold stepR, step.
  destruct (nth_error (regs w) r) as [[ln k]|] eqn:En; [| repeat split; reflexivity].
  destruct (forallb _ _); [repeat split; reflexivity |].
  destruct (lo_write (get empty_line ln (lines w)) (get [] k (lists w))) as [lo' out] eqn:El.
  repeat split; reflexivity.
Qed.

(* ===== files ===== *)

Theorem fresh_file : forall w, Sep w ->
  let w' := fst (stepR w ONewFile) in
  let f := length (files w) in
  length (files w') = S f /\ obs_file w' f = [next_elem w] /\
  (forall g, g < f -> get 0 g (files w') <> get 0 f (files w')) /\
  length (obs_file (fst (stepR w (OFileRead 0))) f) = 1.
Proof.
  intros w HS. cbv zeta. unfold stepR, step, obs_file.
  cbn [fst lines lists regs results conts files next_elem].
  rewrite snoc_length. rewrite !get_app_len.
  split; [reflexivity |]. split; [reflexivity |]. split.
  - intros g Hg. rewrite get_app_lt by exact Hg.
    pose proof (file_cont_in_range w g HS Hg) as Hrange. lia.
  - reflexivity.
Qed.

Theorem shared_default_as_found : forall ls,
  let w := fst (step false (fst (step false (init ls) ONewFile)) ONewFile) in
  get 0 0 (files w) = get 0 1 (files w) /\
  obs_file (fst (step false w (OAppend 0))) 1 <> obs_file w 1.
Proof.
  intros ls. cbv zeta. split.
  - reflexivity.
  - unfold obs_file. simpl. discriminate.
Qed.

Print Assumptions sep_init.
Print Assumptions sep_step.
Print Assumptions sep_run.
Print Assumptions frame_register.
Print Assumptions frame_result.
Print Assumptions frame_file.
Print Assumptions read_fresh.
Print Assumptions write_own_data.
Print Assumptions write_changes_nothing.
Print Assumptions fresh_file.
Print Assumptions shared_default_as_found.
