(* The real-number meaning of the binary64 computations of Py/PyNum.v (through Flocq), the
   idempotence of decimal rounding through the nearest double, and text stability of F-notation
   float fields.  This is the only file that imports Flocq and Reals. *)
From Coq Require Import ZArith NArith List Bool Arith Lia Reals Lra.
From Coq Require Import Floats.SpecFloat.
From Flocq Require Import Core.Core IEEE754.BinarySingleNaN IEEE754.PrimFloat.
From Cfi Require Import Glue.Sx Py.PyStr Py.PyNum Model.Field.
From Cfi Require Import Proofs.FieldProofs Proofs.NumText Proofs.LineProofs.
Import ListNotations.

Local Open Scope R_scope.

(* ===================================================================== *)
(* Stage 1: the meaning of rn64, binary_normalize, sf_of_dec             *)
(* ===================================================================== *)

Definition sfR (x : spec_float) : R := SF2R radix2 x.
Notation fexp64 := (FLT_exp (-1074) 53).
Notation fmt64 := (generic_format radix2 fexp64).
Notation rnd64 := (round radix2 fexp64 ZnearestE).
Notation valid64 := (SpecFloat.valid_binary 53 1024).

Local Instance Hprec53 : FLX.Prec_gt_0 53 := eq_refl _.
Local Instance Hmax1024 : Prec_lt_emax 53 1024 := eq_refl _.

Definition sgnR (neg : bool) : R := if neg then -1 else 1.

Lemma F2R_int : forall neg (n : positive),
  F2R (Float radix2 (cond_Zopp neg (Zpos n)) 0) = sgnR neg * IZR (Zpos n).
Proof.
  intros neg n. unfold F2R. cbn [Fnum Fexp bpow]. rewrite Rmult_1_r.
  destruct neg; cbn [cond_Zopp sgnR].
  - change (Z.opp (Zpos n)) with (Zneg n). change (Zneg n) with (Z.opp (Zpos n)).
    rewrite opp_IZR. ring.
  - ring.
Qed.

Lemma rn64_spec : forall neg n d,
  let q := (sgnR neg * IZR (Zpos n) / IZR (Zpos d))%R in
  Rlt_bool (Rabs (rnd64 q)) (bpow radix2 1024) = true ->
  SF2R radix2 (rn64 neg n d) = rnd64 q /\ valid64 (rn64 neg n d) = true /\
  is_finite_SF (rn64 neg n d) = true /\ sign_SF (rn64 neg n d) = neg.
Proof.
  intros neg n d q Hov.
  pose proof (Bdiv_correct_aux 53 1024 Hprec53 Hmax1024 mode_NE neg n 0 false d 0) as H.
  cbv zeta in H. rewrite !F2R_int in H.
  change (sgnR false) with 1 in H. rewrite Rmult_1_l in H.
  change (round radix2 (SpecFloat.fexp 53 1024) (round_mode mode_NE)) with rnd64 in H.
  fold q in H.
  rewrite Hov in H.
  unfold rn64, SFdiv.
  destruct (SFdiv_core_binary 53 1024 (Zpos n) 0 (Zpos d) 0) as [[mz ez] lz].
  rewrite binary_round_aux_equiv.
  rewrite xorb_false_r in *.
  destruct H as [Hv [Hr [Hf Hs]]].
  repeat split; assumption.
Qed.

Theorem rn64_correct : forall (neg : bool) (n d : positive),
  let q := ((if neg then -1 else 1) * IZR (Zpos n) / IZR (Zpos d))%R in
  Rlt_bool (Rabs (round radix2 (FLT_exp (-1074) 53) ZnearestE q)) (bpow radix2 1024) = true ->
  SF2R radix2 (rn64 neg n d) = round radix2 (FLT_exp (-1074) 53) ZnearestE q /\
  SpecFloat.valid_binary 53 1024 (rn64 neg n d) = true.
Proof.
  intros neg n d q Hov. pose proof (rn64_spec neg n d) as H. cbv zeta in H.
  destruct (H Hov) as [H1 [H2 _]]. split; assumption.
Qed.

Lemma rnd64_nearest : forall q y, fmt64 y -> Rabs (rnd64 q - q) <= Rabs (y - q).
Proof.
  intros q y Hy.
  destruct (round_N_pt radix2 fexp64 (fun x => negb (Z.even x)) q) as [_ H].
  apply H. exact Hy.
Qed.

Theorem rn64_nearest : forall (neg : bool) (n d : positive) (y : R),
  let q := ((if neg then -1 else 1) * IZR (Zpos n) / IZR (Zpos d))%R in
  generic_format radix2 (FLT_exp (-1074) 53) y ->
  Rlt_bool (Rabs (round radix2 (FLT_exp (-1074) 53) ZnearestE q)) (bpow radix2 1024) = true ->
  (Rabs (sfR (rn64 neg n d) - q) <= Rabs (y - q))%R.
Proof.
  intros neg n d y q Hy Hov. unfold sfR.
  pose proof (rn64_correct neg n d) as H. cbv zeta in H.
  destruct (H Hov) as [H1 _]. rewrite H1. apply rnd64_nearest. exact Hy.
Qed.

(* the integer branch: SpecFloat.binary_normalize 53 1024 z 0 szero *)
Lemma normalize64_spec : forall z szero,
  Rlt_bool (Rabs (rnd64 (IZR z))) (bpow radix2 1024) = true ->
  SF2R radix2 (SpecFloat.binary_normalize 53 1024 z 0 szero) = rnd64 (IZR z) /\
  valid64 (SpecFloat.binary_normalize 53 1024 z 0 szero) = true /\
  is_finite_SF (SpecFloat.binary_normalize 53 1024 z 0 szero) = true /\
  (z <> 0%Z -> sign_SF (SpecFloat.binary_normalize 53 1024 z 0 szero) = Z.ltb z 0).
Proof.
  intros z szero Hov.
  pose proof (binary_normalize_equiv z 0 szero) as E.
  change FloatOps.prec with 53%Z in E. change FloatOps.emax with 1024%Z in E.
  rewrite E. clear E.
  pose proof (binary_normalize_correct 53 1024 Hprec Hmax mode_NE z 0 szero) as H.
  cbv zeta in H.
  assert (HF : F2R (Float radix2 z 0) = IZR z).
  { unfold F2R. cbn [Fnum Fexp bpow]. ring. }
  rewrite HF in H.
  change (round radix2 (SpecFloat.fexp 53 1024) (round_mode mode_NE)) with rnd64 in H.
  rewrite Hov in H.
  destruct H as [Hr [Hf Hs]].
  set (b := binary_normalize 53 1024 Hprec Hmax mode_NE z 0 szero) in *.
  split; [|split; [|split]].
  - rewrite <- Hr. unfold B2R. destruct b; reflexivity.
  - apply valid_binary_B2SF.
  - rewrite <- Hf. destruct b; reflexivity.
  - intros Hz. replace (sign_SF (B2SF b)) with (Bsign b) by (destruct b; reflexivity).
    rewrite Hs. destruct (Rcompare_spec (IZR z) 0) as [Hc | Hc | Hc].
    + apply lt_IZR in Hc. symmetry. apply Z.ltb_lt. exact Hc.
    + apply eq_IZR in Hc. contradiction.
    + apply lt_IZR in Hc. symmetry. apply Z.ltb_ge. lia.
Qed.

(* ---------- sf_of_dec *)
Definition radix10 : radix := Build_radix 10 eq_refl.
(* the decimal number  (+/-) n * 10^k *)
Definition decR (neg : bool) (n k : Z) : R := sgnR neg * IZR n * bpow radix10 k.

Lemma pow10_IZR : forall k, (0 <= k)%Z -> IZR (10 ^ k) = bpow radix10 k.
Proof. intros k Hk. apply (IZR_Zpower radix10 k Hk). Qed.

Lemma sgnR_abs : forall neg, Rabs (sgnR neg) = 1.
Proof.
  intros [|]; unfold sgnR.
  - rewrite Rabs_left by lra. lra.
  - apply Rabs_R1.
Qed.

(* the hypotheses exclude the magnitude clamps and overflow *)
Theorem sf_of_dec_spec : forall neg n k, (0 < n)%Z ->
  (-400 <= Z.of_nat (length (dec_digits n)) + k <= 400)%Z ->
  Rabs (rnd64 (decR neg n k)) < bpow radix2 1024 ->
  sfR (sf_of_dec neg n k) = rnd64 (decR neg n k) /\ valid64 (sf_of_dec neg n k) = true /\
  is_finite_SF (sf_of_dec neg n k) = true /\ sign_SF (sf_of_dec neg n k) = neg.
Proof.
  intros neg n k Hn Hmag Hov. unfold sfR.
  destruct n as [|p|p]; try lia.
  unfold sf_of_dec.
  assert (E1 : (400 <? Z.of_nat (length (dec_digits (Zpos p))) + k)%Z = false) by (apply Z.ltb_ge; lia).
  assert (E2 : (Z.of_nat (length (dec_digits (Zpos p))) + k <? -400)%Z = false) by (apply Z.ltb_ge; lia).
  rewrite E1, E2.
  destruct (0 <=? k)%Z eqn:Ek.
  - apply Z.leb_le in Ek.
    assert (Hp : (0 < 10 ^ k)%Z) by (apply Z.pow_pos_nonneg; lia).
    set (z := (if neg then (- (Zpos p * 10 ^ k))%Z else (Zpos p * 10 ^ k)%Z)).
    assert (Hz : IZR z = decR neg (Zpos p) k).
    { unfold z, decR. rewrite <- (pow10_IZR k Ek). destruct neg; unfold sgnR.
      - rewrite opp_IZR, mult_IZR. ring.
      - rewrite mult_IZR. ring. }
    assert (Hov' : Rlt_bool (Rabs (rnd64 (IZR z))) (bpow radix2 1024) = true).
    { apply Rlt_bool_true. rewrite Hz. exact Hov. }
    destruct (normalize64_spec z neg Hov') as [H1 [H2 [H3 H4]]].
    rewrite Hz in H1. split; [exact H1|]. split; [exact H2|]. split; [exact H3|].
    rewrite H4.
    + unfold z. destruct neg; [apply Z.ltb_lt | apply Z.ltb_ge]; lia.
    + unfold z. destruct neg; lia.
  - apply Z.leb_gt in Ek.
    assert (Hp : (0 < 10 ^ (- k))%Z) by (apply Z.pow_pos_nonneg; lia).
    destruct (10 ^ (- k))%Z as [|d|d] eqn:Ed; try lia.
    assert (Hq : (sgnR neg * IZR (Zpos p) / IZR (Zpos d))%R = decR neg (Zpos p) k).
    { unfold decR. rewrite <- Ed. rewrite pow10_IZR by lia.
      replace k with (- (- k))%Z at 2 by lia. rewrite (bpow_opp radix10 (- k)). reflexivity. }
    pose proof (rn64_spec neg p d) as H. cbv zeta in H. rewrite Hq in H.
    apply H. apply Rlt_bool_true. exact Hov.
Qed.

Theorem sf_of_dec_nearest : forall neg n k y, (0 < n)%Z ->
  (-400 <= Z.of_nat (length (dec_digits n)) + k <= 400)%Z ->
  Rabs (rnd64 (decR neg n k)) < bpow radix2 1024 ->
  fmt64 y ->
  Rabs (sfR (sf_of_dec neg n k) - decR neg n k) <= Rabs (y - decR neg n k).
Proof.
  intros neg n k y Hn Hmag Hov Hy.
  destruct (sf_of_dec_spec neg n k Hn Hmag Hov) as [H1 _]. rewrite H1.
  apply rnd64_nearest. exact Hy.
Qed.

Lemma sf_of_dec_zero : forall neg k, sf_of_dec neg 0 k = S754_zero neg.
Proof. intros neg k. reflexivity. Qed.

(* ===================================================================== *)
(* Rounding to the nearest integer, ties to even                          *)
(* ===================================================================== *)

Lemma Rabs_half_cases : forall v n, Rabs (v - IZR n) = /2 -> v = IZR n + /2 \/ v = IZR n - /2.
Proof.
  intros v n H. unfold Rabs in H. destruct (Rcase_abs (v - IZR n)) as [Hc | Hc]; [right | left]; lra.
Qed.

Lemma ZnE_char : forall v N, Rabs (v - IZR N) <= /2 ->
  (Rabs (v - IZR N) = /2 -> Z.even N = true) -> ZnearestE v = N.
Proof.
  intros v N Hle Hev. destruct Hle as [Hlt | Heq].
  - apply Znearest_imp. exact Hlt.
  - specialize (Hev Heq). destruct (Rabs_half_cases v N Heq) as [Hv | Hv].
    + assert (Hf : Zfloor v = N).
      { apply Zfloor_imp. rewrite plus_IZR. lra. }
      unfold ZnearestE, Znearest. rewrite Hf.
      rewrite Rcompare_Eq by lra. rewrite Hev. reflexivity.
    + assert (Hf : Zfloor v = (N - 1)%Z).
      { apply Zfloor_imp. replace (N - 1 + 1)%Z with N by lia. rewrite minus_IZR. lra. }
      assert (Hc : Zceil v = N).
      { apply Zceil_imp. rewrite minus_IZR. lra. }
      unfold ZnearestE, Znearest. rewrite Hf, Hc.
      rewrite Rcompare_Eq by (rewrite minus_IZR; lra).
      replace (N - 1)%Z with (Z.pred N) by lia. rewrite Z.even_pred.
      rewrite <- Z.negb_even. rewrite Hev. reflexivity.
Qed.

Lemma ZnE_even_tie : forall v, Rabs (v - IZR (ZnearestE v)) = /2 -> Z.even (ZnearestE v) = true.
Proof.
  intros v H. set (N := ZnearestE v) in *.
  destruct (Z.even N) eqn:E; [reflexivity | exfalso].
  destruct (Rabs_half_cases v N H) as [Hv | Hv].
  - assert (HN : ZnearestE v = (N + 1)%Z).
    { apply ZnE_char.
      - rewrite plus_IZR. rewrite Hv. replace (IZR N + / 2 - (IZR N + 1)) with (- / 2) by field.
        rewrite Rabs_Ropp. rewrite Rabs_pos_eq by lra. lra.
      - intros _. replace (N + 1)%Z with (Z.succ N) by lia. rewrite Z.even_succ.
        rewrite <- Z.negb_even. rewrite E. reflexivity. }
    fold N in HN. lia.
  - assert (HN : ZnearestE v = (N - 1)%Z).
    { apply ZnE_char.
      - rewrite minus_IZR. rewrite Hv. replace (IZR N - / 2 - (IZR N - 1)) with (/ 2) by field.
        rewrite Rabs_pos_eq by lra. lra.
      - intros _. replace (N - 1)%Z with (Z.pred N) by lia. rewrite Z.even_pred.
        rewrite <- Z.negb_even. rewrite E. reflexivity. }
    fold N in HN. lia.
Qed.

Lemma ZnE_half : forall v, Rabs (v - IZR (ZnearestE v)) <= /2.
Proof. intros v. apply Znearest_half. Qed.

Lemma ZnE_IZR : forall n, ZnearestE (IZR n) = n.
Proof.
  intros n. apply Znearest_imp. replace (IZR n - IZR n) with 0 by ring. rewrite Rabs_R0. lra.
Qed.

Lemma ZnE_le : forall a b, a <= b -> (ZnearestE a <= ZnearestE b)%Z.
Proof. intros a b H. apply (Zrnd_le (Znearest (fun x => negb (Z.even x)))). exact H. Qed.

(* half_even_div is ZnearestE of the quotient *)
Lemma half_even_ZnE : forall num den, (0 <= num)%Z -> (0 < den)%Z ->
  half_even_div num den = ZnearestE (IZR num / IZR den).
Proof.
  intros num den Hn Hd. symmetry.
  assert (Hdm : num = (den * (num / den) + num mod den)%Z) by (apply Z.div_mod; lia).
  assert (Hm : (0 <= num mod den < den)%Z) by (apply Z.mod_pos_bound; lia).
  unfold half_even_div.
  set (q := (num / den)%Z) in *. set (r := (num mod den)%Z) in *.
  assert (HdR : 0 < IZR den) by (apply IZR_lt; exact Hd).
  assert (Hv : IZR num / IZR den = IZR q + IZR r / IZR den).
  { rewrite Hdm at 1. rewrite plus_IZR, mult_IZR. field. lra. }
  assert (Hr0 : 0 <= IZR r) by (apply IZR_le; lia).
  assert (Hr1 : IZR r < IZR den) by (apply IZR_lt; lia).
  set (t := IZR r / IZR den) in *.
  assert (Ht : IZR r = t * IZR den) by (unfold t; field; lra).
  destruct (den <? 2 * r)%Z eqn:E1.
  - apply Z.ltb_lt in E1. apply IZR_lt in E1. rewrite mult_IZR in E1.
    assert (Ht2 : /2 < t < 1) by (split; nra).
    apply Znearest_imp. rewrite Hv, plus_IZR.
    replace (IZR q + t - (IZR q + 1)) with (- (1 - t)) by ring.
    rewrite Rabs_Ropp. rewrite Rabs_pos_eq by lra. lra.
  - apply Z.ltb_ge in E1. destruct (2 * r =? den)%Z eqn:E2.
    + apply Z.eqb_eq in E2. apply (f_equal IZR) in E2. rewrite mult_IZR in E2.
      assert (Ht2 : t = /2) by nra.
      destruct (Z.even q) eqn:E3.
      * apply ZnE_char; [|intros _; exact E3]. rewrite Hv, Ht2.
        replace (IZR q + / 2 - IZR q) with (/2) by ring. rewrite Rabs_pos_eq by lra. lra.
      * apply ZnE_char.
        -- rewrite Hv, Ht2, plus_IZR. replace (IZR q + / 2 - (IZR q + 1)) with (- / 2) by field.
           rewrite Rabs_Ropp. rewrite Rabs_pos_eq by lra. lra.
        -- intros _. replace (q + 1)%Z with (Z.succ q) by lia. rewrite Z.even_succ.
           rewrite <- Z.negb_even. rewrite E3. reflexivity.
    + apply Z.eqb_neq in E2.
      assert (E3 : (2 * r < den)%Z) by lia. apply IZR_lt in E3. rewrite mult_IZR in E3.
      assert (Ht2 : 0 <= t < /2) by (split; nra).
      apply Znearest_imp. rewrite Hv.
      replace (IZR q + t - IZR q) with t by ring. rewrite Rabs_pos_eq by lra. lra.
Qed.

(* the magnitude of a finite binary float *)
Definition magR (m : positive) (e : Z) : R := F2R (Float radix2 (Zpos m) e).

Lemma magR_pos : forall m e, 0 < magR m e.
Proof. intros m e. apply F2R_gt_0. reflexivity. Qed.

Lemma round_dec_ZnE : forall m e (d : nat),
  round_dec m e (Z.of_nat d) = ZnearestE (magR m e * bpow radix10 (Z.of_nat d)).
Proof.
  intros m e d. pose proof (scaled_pos m e (Z.of_nat d)) as HP. unfold round_dec.
  destruct (scaled m e (Z.of_nat d)) as [num den] eqn:Es. destruct HP as [Hn Hd].
  rewrite half_even_ZnE by lia. f_equal.
  unfold scaled in Es.
  assert (E0 : (0 <=? Z.of_nat d)%Z = true) by (apply Z.leb_le; lia).
  rewrite E0 in Es.
  pose proof (f_equal fst Es) as Hnum. pose proof (f_equal snd Es) as Hden.
  cbn [fst snd] in Hnum, Hden. clear Es.
  rewrite <- (pow10_IZR (Z.of_nat d)) by lia.
  unfold magR, F2R. cbn [Fnum Fexp].
  assert (HdR : IZR den <> 0) by (apply not_0_IZR; lia).
  destruct (0 <=? e)%Z eqn:Ee.
  - apply Z.leb_le in Ee. rewrite <- Hnum, <- Hden. rewrite !mult_IZR.
    rewrite <- (IZR_Zpower radix2 e Ee).
    change (Z.pow radix2 e) with (2 ^ e)%Z. cbn [IZR IPR]. field.
  - apply Z.leb_gt in Ee. rewrite <- Hnum. rewrite mult_IZR.
    rewrite <- Hden in *. rewrite Z.mul_1_r in *.
    replace e with (- (- e))%Z at 2 by lia. rewrite bpow_opp.
    rewrite <- (IZR_Zpower radix2 (- e)) by lia.
    change (Z.pow radix2 (- e)) with (2 ^ (- e))%Z. field. exact HdR.
Qed.

(* ===================================================================== *)
(* Finite binary64 numbers                                                *)
(* ===================================================================== *)

Lemma fexp64_eq : forall k, SpecFloat.fexp 53 1024 k = fexp64 k.
Proof. intros k. reflexivity. Qed.

Lemma bounded_fmt : forall m e, SpecFloat.bounded 53 1024 m e = true -> fmt64 (magR m e).
Proof.
  intros m e Hb. unfold magR.
  apply (generic_format_canonical radix2 fexp64 (Float radix2 (Zpos m) e)).
  exact (canonical_bounded 53 1024 false m e Hb).
Qed.

Lemma bounded_ge : forall m e, SpecFloat.bounded 53 1024 m e = true -> bpow radix2 (-1074) <= magR m e.
Proof. intros m e Hb. exact (bounded_ge_emin 53 1024 m e Hb). Qed.

Lemma bounded_le : forall m e, SpecFloat.bounded 53 1024 m e = true ->
  magR m e <= bpow radix2 1024 - bpow radix2 971.
Proof. intros m e Hb. exact (bounded_le_emax_minus_prec 53 1024 Hprec53 m e Hb). Qed.

Lemma bounded_int_or_small : forall m e, SpecFloat.bounded 53 1024 m e = true ->
  (exists z, magR m e = IZR z) \/ magR m e < bpow radix2 52.
Proof.
  intros m e Hb. destruct (Z_le_gt_dec 0 e) as [He | He].
  - left. exists (Zpos m * 2 ^ e)%Z. unfold magR, F2R. cbn [Fnum Fexp].
    rewrite mult_IZR. rewrite <- (IZR_Zpower radix2 e He). reflexivity.
  - right. pose proof (canonical_bounded 53 1024 false m e Hb) as Hc.
    unfold canonical, cexp in Hc. cbn [Fexp cond_Zopp] in Hc. fold (magR m e) in Hc.
    rewrite fexp64_eq in Hc. unfold FLT_exp in Hc.
    assert (Hmag : (mag radix2 (magR m e) <= 52)%Z) by lia.
    pose proof (bpow_mag_gt radix2 (magR m e)) as Hgt.
    rewrite Rabs_pos_eq in Hgt by (left; apply magR_pos).
    apply Rlt_le_trans with (1 := Hgt). apply bpow_le. exact Hmag.
Qed.

Lemma rnd64_nonneg : forall q, 0 <= q -> 0 <= rnd64 q.
Proof.
  intros q Hq. apply round_ge_generic; auto with typeclass_instances.
  apply generic_format_0.
Qed.

Lemma rnd64_id : forall x, fmt64 x -> rnd64 x = x.
Proof. intros x Hx. apply round_generic; auto with typeclass_instances. Qed.

Lemma rnd64_sgn : forall neg q, rnd64 (sgnR neg * q) = sgnR neg * rnd64 q.
Proof.
  intros [|] q; unfold sgnR.
  - replace (-1 * q) with (- q) by ring. rewrite round_NE_opp. ring.
  - rewrite !Rmult_1_l. reflexivity.
Qed.

Lemma sfR_finite : forall s m e, sfR (S754_finite s m e) = sgnR s * magR m e.
Proof.
  intros s m e. unfold sfR, SF2R, magR. destruct s; cbn [cond_Zopp sgnR].
  - change (Z.opp (Zpos m)) with (- (Zpos m))%Z. rewrite F2R_Zopp. ring.
  - ring.
Qed.

Lemma sgnR_neq0 : forall s, sgnR s <> 0.
Proof. intros [|]; unfold sgnR; lra. Qed.

(* ===================================================================== *)
(* Stage 2: idempotence of decimal rounding through the nearest double    *)
(* ===================================================================== *)

(* the real-number core: x a double, p > 0 a scale; N the half-even rounding of x*p, y the
   double nearest to N/p; then the half-even rounding of y*p is N again *)
Lemma dec_idem_core : forall x p, 0 < p -> fmt64 x ->
  let N := ZnearestE (x * p) in
  let y := rnd64 (IZR N / p) in
  Rabs (y * p - IZR N) <= Rabs (x * p - IZR N) /\ ZnearestE (y * p) = N.
Proof.
  intros x p Hp Hx N y.
  assert (H1 : Rabs (y - IZR N / p) <= Rabs (x - IZR N / p)) by (apply rnd64_nearest; exact Hx).
  assert (Hy : forall t, Rabs (t * p - IZR N) = Rabs (t - IZR N / p) * p).
  { intros t. replace (t * p - IZR N) with ((t - IZR N / p) * p) by (field; lra).
    rewrite Rabs_mult. rewrite (Rabs_pos_eq p) by lra. reflexivity. }
  assert (H2 : Rabs (y * p - IZR N) <= Rabs (x * p - IZR N)).
  { rewrite !Hy. apply Rmult_le_compat_r; [lra | exact H1]. }
  split; [exact H2|].
  pose proof (ZnE_half (x * p)) as H3. fold N in H3.
  apply ZnE_char.
  - lra.
  - intros Ht. unfold N. apply ZnE_even_tie. fold N. lra.
Qed.

Lemma pow10R_pos : forall k, 0 < bpow radix10 k.
Proof. intros k. apply bpow_gt_0. Qed.

Lemma decR_div : forall s N (d : nat),
  decR s N (- Z.of_nat d) = sgnR s * (IZR N / bpow radix10 (Z.of_nat d)).
Proof.
  intros s N d. unfold decR. rewrite bpow_opp. unfold Rdiv. ring.
Qed.

(* concrete numeric facts *)
Lemma num_fact_hi : (2 ^ 1024 < 10 ^ 309)%Z.
Proof. apply Z.ltb_lt. vm_compute. reflexivity. Qed.
Lemma num_fact_lo : (2 * 2 ^ 1074 < 10 ^ 401)%Z.
Proof. apply Z.ltb_lt. vm_compute. reflexivity. Qed.

Lemma bpow2_IZR : forall k, (0 <= k)%Z -> bpow radix2 k = IZR (2 ^ k).
Proof. intros k Hk. rewrite <- (IZR_Zpower radix2 k Hk). reflexivity. Qed.

(* the magnitude clamps of sf_of_dec are not reached by a rounding of a finite double *)
Lemma round_dec_mag : forall m e (d : nat), SpecFloat.bounded 53 1024 m e = true ->
  let N := round_dec m e (Z.of_nat d) in
  (0 < N)%Z ->
  (-400 <= Z.of_nat (length (dec_digits N)) + - Z.of_nat d <= 400)%Z.
Proof.
  intros m e d Hb N HN.
  assert (HN0 : (0 <= N)%Z) by lia.
  destruct (dec_digits_spec N HN0) as [Hne _ _ _ Hhi Hlo].
  set (len := length (dec_digits N)) in *.
  assert (Hlen : (1 <= len)%nat).
  { unfold len. destruct (dec_digits N); [congruence | cbn [length]; lia]. }
  set (p := bpow radix10 (Z.of_nat d)).
  assert (Hp : 0 < p) by apply pow10R_pos.
  assert (HpZ : p = IZR (10 ^ Z.of_nat d)) by (unfold p; rewrite pow10_IZR by lia; reflexivity).
  pose proof (ZnE_half (magR m e * p)) as Hh.
  unfold p in Hh. rewrite <- round_dec_ZnE in Hh. fold N in Hh. fold p in Hh.
  apply Rabs_le_inv in Hh.
  pose proof (bounded_ge m e Hb) as Hge. pose proof (bounded_le m e Hb) as Hle.
  pose proof (bpow_gt_0 radix2 971) as H971.
  split.
  - (* lower clamp *)
    destruct (Z_lt_ge_dec (Z.of_nat len + - Z.of_nat d) (-400)) as [Hc | Hc]; [exfalso | lia].
    set (a := (Z.of_nat d - 401)%Z).
    assert (Ha : (0 <= a)%Z) by (unfold a; lia).
    assert (HNa : (N < 10 ^ a)%Z).
    { apply Z.lt_le_trans with (1 := Hhi). apply Z.pow_le_mono_r; unfold a; lia. }
    assert (Hd : (10 ^ Z.of_nat d = 10 ^ a * 10 ^ 401)%Z).
    { rewrite <- Z.pow_add_r by lia. f_equal. unfold a. lia. }
    rewrite Hd in HpZ. rewrite mult_IZR in HpZ.
    apply IZR_lt in HNa. assert (HN1 : 1 <= IZR N) by (apply IZR_le; lia).
    pose proof num_fact_lo as Hf. apply IZR_lt in Hf. rewrite mult_IZR in Hf.
    assert (Hm : bpow radix2 (-1074) * IZR (2 ^ 1074) = 1).
    { rewrite <- bpow2_IZR by lia. rewrite <- bpow_plus. reflexivity. }
    assert (HA : 0 < IZR (10 ^ a)) by (apply IZR_lt; apply Z.pow_pos_nonneg; lia).
    assert (HB : 0 < IZR (2 ^ 1074)) by (apply IZR_lt; apply Z.pow_pos_nonneg; lia).
    set (A := IZR (10 ^ a)) in *. set (B := IZR (2 ^ 1074)) in *. set (C := IZR (10 ^ 401)) in *.
    set (u := bpow radix2 (-1074)) in *. set (x := magR m e) in *.
    (* x * A * C <= N + 1/2 < 2 A ; x >= u ; u B = 1 ; 2 B < C *)
    assert (Hx1 : x * (A * C) < 2 * A) by (rewrite <- HpZ; lra).
    assert (Hx2 : u * (A * C) <= x * (A * C)).
    { apply Rmult_le_compat_r; [|exact Hge]. apply Rlt_le. apply Rmult_lt_0_compat; lra. }
    assert (Hx3 : u * C < 2).
    { apply Rmult_lt_reg_r with A; [exact HA|]. lra. }
    assert (Hx4 : u * C * B < 2 * B) by (apply Rmult_lt_compat_r; lra).
    replace (u * C * B) with (u * B * C) in Hx4 by ring. rewrite Hm in Hx4. lra.
  - (* upper clamp *)
    destruct (Z_le_gt_dec (Z.of_nat len + - Z.of_nat d) 400) as [Hc | Hc]; [lia | exfalso].
    destruct Hlo as [Hlo | Hlo]; [|lia].
    assert (HK : (N <= 2 ^ 1024 * 10 ^ Z.of_nat d)%Z).
    { apply Zlt_succ_le. apply lt_IZR. unfold Z.succ. rewrite plus_IZR, mult_IZR.
      rewrite <- HpZ. rewrite <- bpow2_IZR by lia.
      assert (magR m e * p <= (bpow radix2 1024 - bpow radix2 971) * p).
      { apply Rmult_le_compat_r; lra. }
      assert (0 < bpow radix2 971 * p) by (apply Rmult_lt_0_compat; lra).
      lra. }
    assert (HK2 : (N < 10 ^ (309 + Z.of_nat d))%Z).
    { rewrite Z.pow_add_r by lia. apply Z.le_lt_trans with (1 := HK).
      apply Z.mul_lt_mono_pos_r; [apply Z.pow_pos_nonneg; lia | exact num_fact_hi]. }
    assert (HK3 : (10 ^ (Z.of_nat len - 1) < 10 ^ (309 + Z.of_nat d))%Z) by lia.
    apply Z.pow_lt_mono_r_iff in HK3; lia.
Qed.

(* what sf_of_dec gives on a rounding of a finite double: never clamped, never overflowing *)
Lemma reparse_spec : forall s m e (d : nat), SpecFloat.bounded 53 1024 m e = true ->
  let N := round_dec m e (Z.of_nat d) in
  let p := bpow radix10 (Z.of_nat d) in
  let y := sf_of_dec s N (- Z.of_nat d) in
  (N = 0%Z /\ y = S754_zero s) \/
  ((0 < N)%Z /\ exists m' e', y = S754_finite s m' e' /\ SpecFloat.bounded 53 1024 m' e' = true /\
                 magR m' e' = rnd64 (IZR N / p)).
Proof.
  intros s m e d Hb N p y.
  pose proof (round_dec_nonneg m e (Z.of_nat d)) as HN0. fold N in HN0.
  destruct (Z.eq_dec N 0) as [HNz | HNz].
  - left. split; [exact HNz|]. unfold y. rewrite HNz. reflexivity.
  - right. assert (HN : (0 < N)%Z) by lia. split; [exact HN|].
    assert (Hp : 0 < p) by apply pow10R_pos.
    pose proof (bounded_fmt m e Hb) as Hx.
    destruct (dec_idem_core (magR m e) p Hp Hx) as [Hc1 Hc2].
    unfold p in Hc1, Hc2. rewrite <- round_dec_ZnE in Hc1, Hc2. fold N in Hc1, Hc2. fold p in Hc1, Hc2.
    pose proof (ZnE_half (magR m e * p)) as Hh.
    unfold p in Hh. rewrite <- round_dec_ZnE in Hh. fold N in Hh. fold p in Hh.
    set (D := IZR N / p) in *. set (r := rnd64 D) in *.
    assert (HN1 : 1 <= IZR N) by (apply IZR_le; lia).
    assert (HD : 0 <= D) by (unfold D; apply Rlt_le; apply Rdiv_lt_0_compat; lra).
    assert (Hr0 : 0 <= r) by (apply rnd64_nonneg; exact HD).
    assert (Hrp : / 2 <= r * p).
    { assert (Hq : Rabs (r * p - IZR N) <= / 2) by lra. apply Rabs_le_inv in Hq. lra. }
    assert (Hrpos : 0 < r).
    { destruct Hr0 as [Hr0 | Hr0]; [exact Hr0|]. rewrite <- Hr0 in Hrp. lra. }
    (* no overflow *)
    assert (Hov : Rabs (rnd64 (decR s N (- Z.of_nat d))) < bpow radix2 1024).
    { rewrite decR_div. fold p. fold D. rewrite rnd64_sgn. fold r.
      rewrite Rabs_mult, sgnR_abs, Rmult_1_l. rewrite Rabs_pos_eq by lra.
      pose proof (rnd64_nearest D (magR m e) Hx) as Hn. fold r in Hn.
      pose proof (bounded_le m e Hb) as Hle.
      assert (Hxd : Rabs (magR m e - D) <= / 2).
      { replace (magR m e - D) with ((magR m e * p - IZR N) * / p) by (unfold D; field; lra).
        rewrite Rabs_mult. rewrite (Rabs_pos_eq (/ p)) by (left; apply Rinv_0_lt_compat; lra).
        assert (Hp1 : 1 <= p).
        { unfold p. change 1 with (bpow radix10 0). apply bpow_le. lia. }
        assert (Hip : / p <= 1).
        { rewrite <- Rinv_1. apply Rinv_le_contravar; lra. }
        assert (Hip0 : 0 < / p) by (apply Rinv_0_lt_compat; lra).
        pose proof (Rabs_pos (magR m e * p - IZR N)) as Hap.
        apply Rle_trans with (Rabs (magR m e * p - IZR N) * 1); [|lra].
        apply Rmult_le_compat_l; lra. }
      apply Rabs_le_inv in Hn. pose proof (Rabs_le_inv _ _ Hxd) as Hxd'.
      assert (H971 : 1 < bpow radix2 971).
      { change 1 with (bpow radix2 0). apply bpow_lt. lia. }
      lra. }
    pose proof (round_dec_mag m e d Hb) as Hmag. cbv zeta in Hmag. fold N in Hmag.
    specialize (Hmag HN).
    destruct (sf_of_dec_spec s N (- Z.of_nat d) HN Hmag Hov) as [H1 [H2 [H3 H4]]].
    fold y in H1, H2, H3, H4.
    rewrite decR_div in H1. fold p in H1. fold D in H1. rewrite rnd64_sgn in H1. fold r in H1.
    destruct y as [s' | s' | | s' m' e'] eqn:Ey; try discriminate H3.
    + exfalso. unfold sfR in H1. cbn [SF2R] in H1.
      pose proof (sgnR_neq0 s) as Hs. assert (sgnR s * r <> 0) by (apply Rmult_integral_contrapositive_currified; lra).
      lra.
    + cbn [sign_SF] in H4. subst s'. exists m', e'. split; [reflexivity|]. split; [exact H2|].
      rewrite sfR_finite in H1.
      apply Rmult_eq_reg_l with (sgnR s); [exact H1 | apply sgnR_neq0].
Qed.

Theorem round_dec_idempotent : forall s m e (d : nat), SpecFloat.bounded 53 1024 m e = true ->
  let N := round_dec m e (Z.of_nat d) in
  match sf_of_dec s N (- Z.of_nat d) with
  | S754_finite s' m' e' => s' = s /\ round_dec m' e' (Z.of_nat d) = N
  | S754_zero s' => s' = s /\ N = 0%Z
  | _ => False
  end.
Proof.
  intros s m e d Hb N.
  pose proof (reparse_spec s m e d Hb) as H. cbv zeta in H. fold N in H.
  destruct H as [[HN Hy] | [HN [m' [e' [Hy [Hb' Hm']]]]]].
  - rewrite Hy. split; [reflexivity | exact HN].
  - rewrite Hy. split; [reflexivity|].
    rewrite round_dec_ZnE. rewrite Hm'.
    pose proof (bounded_fmt m e Hb) as Hx.
    destruct (dec_idem_core (magR m e) (bpow radix10 (Z.of_nat d)) (pow10R_pos _) Hx) as [_ Hc2].
    rewrite <- round_dec_ZnE in Hc2. exact Hc2.
Qed.

(* ===================================================================== *)
(* Stage 3: text stability of F-notation float fields                     *)
(* ===================================================================== *)

Lemma ZnE_nonneg : forall a, 0 <= a -> (0 <= ZnearestE a)%Z.
Proof. intros a Ha. rewrite <- (ZnE_IZR 0). apply ZnE_le. exact Ha. Qed.

Lemma fmt64_small_int : forall K, (0 <= K <= 2 ^ 52)%Z -> fmt64 (IZR K).
Proof.
  intros K HK. apply generic_format_FLT.
  apply (FLT_spec radix2 (-1074) 53 (IZR K) (Float radix2 K 0)).
  - unfold F2R. cbn [Fnum Fexp bpow]. ring.
  - cbn [Fnum]. change (Z.pow radix2 53) with (2 ^ 53)%Z.
    assert ((2 ^ 52 < 2 ^ 53)%Z) by (apply Z.pow_lt_mono_r; lia). lia.
  - cbn [Fexp]. lia.
Qed.

(* with more decimals d' > d, the integer part of the rounding of the re-parsed number y reaches
   every power of ten that the integer part of the rounding of x reaches *)
Lemma ipart_ge : forall x (d d' : nat) (k : Z), fmt64 x -> 0 < x ->
  ((exists z, x = IZR z) \/ x < bpow radix2 52) -> (d < d')%nat -> (0 <= k)%Z ->
  let p := bpow radix10 (Z.of_nat d) in
  let p' := bpow radix10 (Z.of_nat d') in
  let y := rnd64 (IZR (ZnearestE (x * p)) / p) in
  (10 ^ k <= ZnearestE (x * p') / 10 ^ Z.of_nat d')%Z ->
  (10 ^ k <= ZnearestE (y * p') / 10 ^ Z.of_nat d')%Z.
Proof.
  intros x d d' k Hx Hx0 Hcase Hdd Hk p p' y H.
  assert (Hp : 0 < p) by apply pow10R_pos.
  assert (Hp' : 0 < p') by apply pow10R_pos.
  assert (HpZ : p = IZR (10 ^ Z.of_nat d)) by (unfold p; rewrite pow10_IZR by lia; reflexivity).
  assert (HpZ' : p' = IZR (10 ^ Z.of_nat d')) by (unfold p'; rewrite pow10_IZR by lia; reflexivity).
  destruct Hcase as [[z Hz] | Hsmall].
  - (* x is an integer: y = x *)
    assert (Hy : y = x).
    { unfold y. rewrite Hz at 1. rewrite HpZ at 1. rewrite <- mult_IZR. rewrite ZnE_IZR.
      rewrite mult_IZR. rewrite <- HpZ, <- Hz.
      replace (x * p / p) with x by (field; lra). apply rnd64_id. exact Hx. }
    rewrite Hy. exact H.
  - set (P := (10 ^ Z.of_nat d)%Z) in *. set (P' := (10 ^ Z.of_nat d')%Z) in *.
    set (K := (10 ^ k)%Z) in *.
    assert (HP : (0 < P)%Z) by (apply Z.pow_pos_nonneg; lia).
    assert (HP' : (0 < P')%Z) by (apply Z.pow_pos_nonneg; lia).
    assert (HK : (0 < K)%Z) by (apply Z.pow_pos_nonneg; lia).
    set (G := (10 ^ (Z.of_nat d' - Z.of_nat d))%Z).
    assert (HG : (10 <= G)%Z).
    { unfold G. change 10%Z with (10 ^ 1)%Z at 1. apply Z.pow_le_mono_r; lia. }
    assert (HPG : P' = (P * G)%Z).
    { unfold P, P', G. rewrite <- Z.pow_add_r by lia. f_equal. lia. }
    (* K * P' <= Nx' *)
    assert (H1 : (K * P' <= ZnearestE (x * p'))%Z).
    { apply Z.le_trans with (P' * (ZnearestE (x * p') / P'))%Z.
      - rewrite (Z.mul_comm K P'). apply Z.mul_le_mono_nonneg_l; lia.
      - apply Z.mul_div_le. exact HP'. }
    pose proof (ZnE_half (x * p')) as Hh'. apply Rabs_le_inv in Hh'.
    apply IZR_le in H1. rewrite mult_IZR in H1. rewrite <- HpZ' in H1.
    assert (H2 : IZR K * p' - / 2 <= x * p') by lra.
    (* K <= 2^52 *)
    assert (HK52 : (K <= 2 ^ 52)%Z).
    { assert (Hlt : (K * P' < 2 ^ 52 * P' + 1)%Z).
      { apply lt_IZR. rewrite plus_IZR, !mult_IZR. rewrite <- HpZ'. rewrite <- bpow2_IZR by lia.
        assert (x * p' < bpow radix2 52 * p') by (apply Rmult_lt_compat_r; lra). lra. }
      assert (Hle : (K * P' <= 2 ^ 52 * P')%Z) by lia.
      apply Z.mul_le_mono_pos_r in Hle; assumption. }
    assert (HKf : fmt64 (IZR K)) by (apply fmt64_small_int; lia).
    (* K * P <= N *)
    set (N := ZnearestE (x * p)) in *.
    assert (HgR : 10 <= IZR G) by (apply IZR_le; exact HG).
    assert (Hpp : p' = p * IZR G).
    { rewrite HpZ', HPG, mult_IZR, <- HpZ. reflexivity. }
    assert (H3 : IZR K * p - / 20 <= x * p).
    { rewrite Hpp in H2.
      assert (Hq : (IZR K * p - x * p) * IZR G <= / 2) by lra.
      assert (Hq2 : (IZR K * p - x * p) * 10 <= / 2).
      { destruct (Rle_or_lt (IZR K * p - x * p) 0) as [Hneg | Hpos].
        - apply Rle_trans with 0; [|lra].
          replace 0 with (0 * 10) by ring. apply Rmult_le_compat_r; lra.
        - apply Rle_trans with (2 := Hq). apply Rmult_le_compat_l; lra. }
      lra. }
    pose proof (ZnE_half (x * p)) as Hh. fold N in Hh. apply Rabs_le_inv in Hh.
    assert (H4 : (K * P <= N)%Z).
    { assert (Hlt : (K * P - 1 < N)%Z).
      { apply lt_IZR. rewrite minus_IZR, mult_IZR. rewrite <- HpZ. lra. }
      lia. }
    (* K <= D, K <= y *)
    assert (H5 : IZR K <= IZR N / p).
    { apply IZR_le in H4. rewrite mult_IZR in H4. rewrite <- HpZ in H4.
      apply Rmult_le_reg_r with p; [exact Hp|].
      replace (IZR N / p * p) with (IZR N) by (field; lra). exact H4. }
    assert (H6 : IZR K <= y).
    { unfold y. apply round_ge_generic; auto with typeclass_instances. }
    (* K * P' <= Ny' *)
    assert (H7 : (K * P' <= ZnearestE (y * p'))%Z).
    { rewrite <- (ZnE_IZR (K * P')). apply ZnE_le. rewrite mult_IZR, <- HpZ'.
      apply Rmult_le_compat_r; lra. }
    apply Z.div_le_lower_bound; [exact HP'|]. rewrite Z.mul_comm. exact H7.
Qed.

(* digit counts are monotone in the powers of ten reached *)
Lemma digits_mono : forall a b, (0 <= a)%Z -> (0 <= b)%Z ->
  (forall k, (0 <= k)%Z -> (10 ^ k <= a)%Z -> (10 ^ k <= b)%Z) ->
  (length (dec_digits a) <= length (dec_digits b))%nat.
Proof.
  intros a b Ha Hb H.
  destruct (dec_digits_spec a Ha) as [Hnea _ _ _ _ Hloa].
  destruct (dec_digits_spec b Hb) as [Hneb _ _ _ Hhib _].
  assert (Hlb : (1 <= length (dec_digits b))%nat).
  { destruct (dec_digits b); [congruence | cbn [length]; lia]. }
  destruct Hloa as [Hloa | Hloa]; [|lia].
  assert (Hla : (1 <= length (dec_digits a))%nat).
  { destruct (dec_digits a); [congruence | cbn [length]; lia]. }
  specialize (H (Z.of_nat (length (dec_digits a)) - 1)%Z ltac:(lia) Hloa).
  assert (Hlt : (10 ^ (Z.of_nat (length (dec_digits a)) - 1) < 10 ^ Z.of_nat (length (dec_digits b)))%Z) by lia.
  apply Z.pow_lt_mono_r_iff in Hlt; lia.
Qed.

(* ---------- first_fit *)
Lemma first_fit_spec : forall (r : nat -> str) w dd, exists d, (d <= dd)%nat /\ first_fit r w dd = r d /\
  (forall d', (d < d' <= dd)%nat -> (w < length (r d'))%nat) /\ (d = O \/ (length (r d) <= w)%nat).
Proof.
  intros r w dd. induction dd as [|dd IH].
  - exists O. split; [lia|]. split; [reflexivity|]. split; [intros d' Hd'; lia | left; reflexivity].
  - cbn [first_fit]. destruct (Nat.leb (length (r (S dd))) w) eqn:E.
    + apply Nat.leb_le in E. exists (S dd). split; [lia|]. split; [reflexivity|].
      split; [intros d' Hd'; lia | right; exact E].
    + apply Nat.leb_gt in E. destruct IH as [d [Hd [He [Hgt Hfit]]]].
      exists d. split; [lia|]. split; [exact He|]. split; [|exact Hfit].
      intros d' Hd'. destruct (Nat.eq_dec d' (S dd)) as [Heq | Hneq].
      * subst d'. exact E.
      * apply Hgt. lia.
Qed.

Lemma first_fit_unique : forall (r : nat -> str) w dd d, (d <= dd)%nat ->
  (forall d', (d < d' <= dd)%nat -> (w < length (r d'))%nat) -> (d = O \/ (length (r d) <= w)%nat) ->
  first_fit r w dd = r d.
Proof.
  intros r w dd. induction dd as [|dd IH]; intros d Hd Hgt Hfit.
  - assert (d = O) by lia. subst d. reflexivity.
  - cbn [first_fit]. destruct (Nat.eq_dec d (S dd)) as [Heq | Hneq].
    + subst d. destruct Hfit as [Hfit | Hfit]; [discriminate|].
      apply Nat.leb_le in Hfit. rewrite Hfit. reflexivity.
    + assert (E : Nat.leb (length (r (S dd))) w = false) by (apply Nat.leb_gt; apply Hgt; lia).
      rewrite E. apply IH; [lia | | exact Hfit]. intros d' Hd'. apply Hgt. lia.
Qed.

(* ---------- lengths of the renderings *)
Lemma with_sep_length : forall sep t, (sep = [DOT] \/ sep = [44%N]) ->
  length (with_sep true sep t) = length t.
Proof.
  intros sep t [Hs | Hs]; unfold with_sep; rewrite Hs, replace1_map; apply map_length.
Qed.

Definition tail_len (d : nat) : nat := match d with O => O | S _ => S d end.

Lemma fixed_text_length : forall neg n d, (0 <= n)%Z ->
  length (fixed_text neg n d) =
    (length (sign_text neg) + length (dec_digits (n / 10 ^ Z.of_nat d)) + tail_len d)%nat.
Proof.
  intros neg n d Hn. rewrite fixed_text_unfold. rewrite !app_length.
  assert (Ht : length (frac_tail n d) = tail_len d).
  { unfold frac_tail, tail_len. destruct d as [|d']; [reflexivity|].
    cbn [length]. rewrite fixed_text_decimals by (exact Hn || lia). reflexivity. }
  rewrite Ht. lia.
Qed.

(* the F rendering of a finite double and of its re-parsed rounding, in terms of ZnearestE *)
Lemma fmtF_finite : forall up s m e (d : nat),
  fmtF up (S754_finite s m e) d = fixed_text s (ZnearestE (magR m e * bpow radix10 (Z.of_nat d))) d.
Proof. intros up s m e d. cbn [fmtF]. rewrite round_dec_ZnE. reflexivity. Qed.

Lemma fmtF_reparse : forall up s m e (d : nat), SpecFloat.bounded 53 1024 m e = true ->
  let N := round_dec m e (Z.of_nat d) in
  let yr := rnd64 (IZR N / bpow radix10 (Z.of_nat d)) in
  forall d' : nat,
  fmtF up (sf_of_dec s N (- Z.of_nat d)) d' = fixed_text s (ZnearestE (yr * bpow radix10 (Z.of_nat d'))) d'.
Proof.
  intros up s m e d Hb N yr d'.
  pose proof (reparse_spec s m e d Hb) as H. cbv zeta in H. fold N in H.
  destruct H as [[HN Hy] | [HN [m' [e' [Hy [Hb' Hm']]]]]].
  - rewrite Hy. cbn [fmtF]. unfold yr. rewrite HN.
    unfold Rdiv. rewrite Rmult_0_l. rewrite round_0 by auto with typeclass_instances.
    rewrite Rmult_0_l. rewrite (ZnE_IZR 0). reflexivity.
  - rewrite Hy. rewrite fmtF_finite. fold yr in Hm'. rewrite Hm'. reflexivity.
Qed.

Lemma float_text_F : forall w dd up sep x,
  float_text true w dd false up sep x = first_fit (fun d => with_sep true sep (fmtF up x d)) w dd.
Proof. intros w dd up sep x. reflexivity. Qed.

Lemma missing_sf_of_dec : forall s m e (d : nat), SpecFloat.bounded 53 1024 m e = true ->
  missing (VFloat (sf_of_dec s (round_dec m e (Z.of_nat d)) (- Z.of_nat d))) = false.
Proof.
  intros s m e d Hb.
  pose proof (reparse_spec s m e d Hb) as H. cbv zeta in H.
  destruct H as [[HN Hy] | [HN [m' [e' [Hy _]]]]]; rewrite Hy; reflexivity.
Qed.

(* the F-notation text of the re-parsed value is the text of the value *)
Lemma float_text_stable : forall w dd up sep s m e, (sep = [DOT] \/ sep = [44%N]) ->
  SpecFloat.bounded 53 1024 m e = true ->
  exists d : nat,
    float_text true w dd false up sep (S754_finite s m e) =
      with_sep true sep (fixed_text s (round_dec m e (Z.of_nat d)) d) /\
    float_text true w dd false up sep (sf_of_dec s (round_dec m e (Z.of_nat d)) (- Z.of_nat d)) =
      float_text true w dd false up sep (S754_finite s m e).
Proof.
  intros w dd up sep s m e Hsep Hb.
  rewrite float_text_F.
  set (rx := fun d : nat => with_sep true sep (fmtF up (S754_finite s m e) d)).
  destruct (first_fit_spec rx w dd) as [d [Hd [He [Hgt Hfit]]]].
  exists d. split; [rewrite He; reflexivity|].
  set (N := round_dec m e (Z.of_nat d)).
  rewrite float_text_F.
  set (ry := fun d' : nat => with_sep true sep (fmtF up (sf_of_dec s N (- Z.of_nat d)) d')).
  set (x := magR m e).
  set (p := bpow radix10 (Z.of_nat d)).
  set (yr := rnd64 (IZR N / p)).
  assert (Hx : fmt64 x) by (apply bounded_fmt; exact Hb).
  assert (Hx0 : 0 < x) by apply magR_pos.
  assert (HNx : N = ZnearestE (x * p)) by (unfold N; apply round_dec_ZnE).
  assert (Hry : forall d', ry d' = with_sep true sep (fixed_text s (ZnearestE (yr * bpow radix10 (Z.of_nat d'))) d')).
  { intros d'. unfold ry. pose proof (fmtF_reparse up s m e d Hb) as HF. cbv zeta in HF.
    fold N in HF. fold p in HF. fold yr in HF. rewrite HF. reflexivity. }
  assert (Hrx : forall d', rx d' = with_sep true sep (fixed_text s (ZnearestE (x * bpow radix10 (Z.of_nat d'))) d')).
  { intros d'. unfold rx. rewrite fmtF_finite. reflexivity. }
  assert (Hyr0 : 0 <= yr).
  { unfold yr. apply rnd64_nonneg. unfold Rdiv. apply Rmult_le_pos.
    - apply IZR_le. unfold N. apply round_dec_nonneg.
    - left. apply Rinv_0_lt_compat. apply pow10R_pos. }
  (* same text at d *)
  assert (Hsame : ry d = rx d).
  { rewrite Hry, Hrx. fold p.
    destruct (dec_idem_core x p (pow10R_pos _) Hx) as [_ Hc]. rewrite <- HNx in Hc.
    fold yr in Hc. rewrite Hc, <- HNx. reflexivity. }
  rewrite He, <- Hsame.
  apply first_fit_unique.
  - exact Hd.
  - intros d' Hd'. specialize (Hgt d' Hd').
    apply Nat.lt_le_trans with (1 := Hgt).
    rewrite Hry, Hrx. rewrite !with_sep_length by exact Hsep.
    set (p' := bpow radix10 (Z.of_nat d')).
    assert (Hp' : 0 < p') by apply pow10R_pos.
    assert (Hnx : (0 <= ZnearestE (x * p'))%Z).
    { apply ZnE_nonneg. apply Rmult_le_pos; lra. }
    assert (Hny : (0 <= ZnearestE (yr * p'))%Z).
    { apply ZnE_nonneg. apply Rmult_le_pos; lra. }
    rewrite !fixed_text_length by assumption.
    assert (HP' : (0 < 10 ^ Z.of_nat d')%Z) by (apply Z.pow_pos_nonneg; lia).
    assert (Hdig : (length (dec_digits (ZnearestE (x * p') / 10 ^ Z.of_nat d')) <=
                    length (dec_digits (ZnearestE (yr * p') / 10 ^ Z.of_nat d')))%nat).
    { apply digits_mono.
      - apply Z.div_pos; lia.
      - apply Z.div_pos; lia.
      - intros k Hk Hle.
        pose proof (ipart_ge x d d' k Hx Hx0 (bounded_int_or_small m e Hb) ltac:(lia) Hk) as HI.
        cbv zeta in HI. fold p in HI. rewrite <- HNx in HI. fold yr in HI. fold p' in HI.
        apply HI. exact Hle. }
    lia.
  - rewrite Hsame. exact Hfit.
Qed.

Theorem stable_float_fixed_gen : forall f dd up sep s m e, kind f = KFloat dd false up sep ->
  (sep = [DOT] \/ sep = [44%N]) ->
  SpecFloat.bounded 53 1024 m e = true ->
  stable_field f (VFloat (S754_finite s m e)).
Proof.
  intros f dd up sep s m e Hk Hsep Hb.
  destruct (float_text_stable (size f) dd up sep s m e Hsep Hb) as [d [He Hst]].
  set (N := round_dec m e (Z.of_nat d)) in *.
  assert (Hnn : (0 <= N)%Z) by apply round_dec_nonneg.
  assert (Hre : reread f (VFloat (S754_finite s m e)) = VFloat (sf_of_dec s N (- Z.of_nat d))).
  { unfold reread.
    rewrite (render_float f dd false up sep (S754_finite s m e) Hk eq_refl eq_refl).
    rewrite Hk. cbn [interp]. rewrite He. unfold with_sep.
    rewrite (dialect_roundtrip sep _ _ Hsep (plain_notin_comma _ (fixed_text_plain s _ d Hnn))).
    rewrite (fixed_text_parse_padded s _ d _ Hnn). reflexivity. }
  unfold stable_field. rewrite Hre.
  pose proof (missing_sf_of_dec s m e d Hb) as Hmis. fold N in Hmis.
  rewrite (render_float f dd false up sep _ Hk Hmis eq_refl).
  rewrite (render_float f dd false up sep (S754_finite s m e) Hk eq_refl eq_refl).
  cbv zeta. rewrite Hst. reflexivity.
Qed.

(* the statement as requested; the [fits] hypothesis is not needed *)
Theorem stable_float_fixed : forall f dd up sep s m e, kind f = KFloat dd false up sep ->
  (sep = [DOT] \/ sep = [44%N]) ->
  SpecFloat.bounded 53 1024 m e = true -> fits f (VFloat (S754_finite s m e)) = true ->
  stable_field f (VFloat (S754_finite s m e)).
Proof.
  intros f dd up sep s m e Hk Hsep Hb _. exact (stable_float_fixed_gen f dd up sep s m e Hk Hsep Hb).
Qed.

(* ===================================================================== *)
(* Complements                                                            *)
(* ===================================================================== *)

(* a sufficient condition for the no-overflow hypotheses: |q| at most the largest double *)
Lemma max64_fmt : fmt64 (bpow radix2 1024 - bpow radix2 971).
Proof.
  apply generic_format_FLT.
  apply (FLT_spec radix2 (-1074) 53 _ (Float radix2 (2 ^ 53 - 1) 971)).
  - unfold F2R. cbn [Fnum Fexp]. rewrite minus_IZR. rewrite <- (bpow2_IZR 53) by lia.
    replace 1024%Z with (53 + 971)%Z by lia. rewrite bpow_plus. cbn [IZR IPR]. ring.
  - cbn [Fnum]. change (Z.pow radix2 53) with (2 ^ 53)%Z.
    assert ((0 < 2 ^ 53)%Z) by (apply Z.pow_pos_nonneg; lia). lia.
  - cbn [Fexp]. lia.
Qed.

Theorem rnd64_no_overflow : forall q, Rabs q <= bpow radix2 1024 - bpow radix2 971 ->
  Rabs (rnd64 q) < bpow radix2 1024.
Proof.
  intros q Hq.
  assert (H : Rabs (rnd64 q) <= bpow radix2 1024 - bpow radix2 971).
  { apply abs_round_le_generic; auto with typeclass_instances. apply max64_fmt. }
  pose proof (bpow_gt_0 radix2 971). lra.
Qed.

(* sf_of_dec_nearest for n >= 0 (n = 0 gives a signed zero) *)
Theorem sf_of_dec_nearest0 : forall neg n k y, (0 <= n)%Z ->
  (-400 <= Z.of_nat (length (dec_digits n)) + k <= 400)%Z ->
  Rabs (rnd64 (decR neg n k)) < bpow radix2 1024 ->
  fmt64 y ->
  Rabs (sfR (sf_of_dec neg n k) - decR neg n k) <= Rabs (y - decR neg n k).
Proof.
  intros neg n k y Hn Hmag Hov Hy.
  destruct (Z.eq_dec n 0) as [Hz | Hz].
  - subst n. rewrite sf_of_dec_zero. unfold sfR, decR. cbn [SF2R].
    rewrite Rmult_0_r, Rmult_0_l. rewrite !Rminus_0_r. rewrite Rabs_R0. apply Rabs_pos.
  - apply sf_of_dec_nearest; (assumption || lia).
Qed.

(* signed zeros in F notation are stable as well *)
Theorem stable_float_zero : forall f dd up sep s, kind f = KFloat dd false up sep ->
  (sep = [DOT] \/ sep = [44%N]) ->
  stable_field f (VFloat (S754_zero s)).
Proof.
  intros f dd up sep s Hk Hsep.
  assert (Hre : reread f (VFloat (S754_zero s)) = VFloat (S754_zero s)).
  { unfold reread.
    rewrite (render_float f dd false up sep (S754_zero s) Hk eq_refl eq_refl).
    rewrite Hk. cbn [interp]. cbv zeta. rewrite float_text_F.
    destruct (first_fit_some (fun d => with_sep true sep (fmtF up (S754_zero s) d)) (size f) dd)
      as [d [_ He]].
    rewrite He. cbn [fmtF]. unfold with_sep.
    rewrite (dialect_roundtrip sep _ _ Hsep (plain_notin_comma _ (fixed_text_plain s 0 d (Z.le_refl 0)))).
    rewrite (fixed_text_parse_padded s 0 d _ (Z.le_refl 0)). reflexivity. }
  unfold stable_field. rewrite Hre. reflexivity.
Qed.

(* ===================================================================== *)
Print Assumptions rn64_correct.
Print Assumptions rn64_nearest.
Print Assumptions normalize64_spec.
Print Assumptions sf_of_dec_spec.
Print Assumptions sf_of_dec_nearest.
Print Assumptions sf_of_dec_nearest0.
Print Assumptions rnd64_no_overflow.
Print Assumptions half_even_ZnE.
Print Assumptions round_dec_ZnE.
Print Assumptions dec_idem_core.
Print Assumptions reparse_spec.
Print Assumptions round_dec_idempotent.
Print Assumptions float_text_stable.
Print Assumptions stable_float_fixed.
Print Assumptions stable_float_fixed_gen.
Print Assumptions stable_float_zero.
