(* Python's round() in front of "{:.dF}".format: the F branch of FloatField._textual_write formats round(x, d) with d
   decimals. The model renders x directly (fmtF); this file proves that the two are the same text for every finite double
   and every d, and that round(x, d), d >= 0, never raises. (The E branch is different: there the model keeps round(),
   see sci_val in Py/PyNum.v and Proofs/FloatSciReal.v.)  Depends on Proofs.FloatReal (Flocq, real-number axioms). *)
From Coq Require Import ZArith NArith List Bool Arith Lia.
From Coq Require Import Floats.SpecFloat.
From Cfi Require Import Glue.Sx Py.PyStr Py.PyNum Model.Field.
From Cfi Require Import Proofs.FloatReal.
Import ListNotations.
Local Open Scope Z_scope.

Theorem py_round_fixed_never_raises : forall s m e (d : nat), SpecFloat.bounded 53 1024 m e = true ->
  exists y, py_round (S754_finite s m e) (Z.of_nat d) = Some y.
Proof.
  intros s m e d Hb. unfold py_round.
  destruct (323 <? Z.of_nat d); [eexists; reflexivity|].
  destruct (Z.of_nat d <? -308) eqn:E; [apply Z.ltb_lt in E; lia|].
  pose proof (round_dec_idempotent s m e d Hb) as H. cbv zeta in H.
  destruct (sf_of_dec s (round_dec m e (Z.of_nat d)) (- Z.of_nat d)) as [s'|s'| |s' m' e'];
    try contradiction; eexists; reflexivity.
Qed.

Theorem fmtF_round_absorb : forall up s m e (d : nat) y, SpecFloat.bounded 53 1024 m e = true ->
  py_round (S754_finite s m e) (Z.of_nat d) = Some y ->
  fmtF up y d = fmtF up (S754_finite s m e) d.
Proof.
  intros up s m e d y Hb Hr. unfold py_round in Hr.
  destruct (323 <? Z.of_nat d); [inversion Hr; reflexivity|].
  destruct (Z.of_nat d <? -308) eqn:E; [apply Z.ltb_lt in E; lia|].
  pose proof (round_dec_idempotent s m e d Hb) as H. cbv zeta in H.
  destruct (sf_of_dec s (round_dec m e (Z.of_nat d)) (- Z.of_nat d)) as [s'|s'| |s' m' e'];
    try contradiction.
  - destruct H as [Hs HN]. inversion Hr; subst y s'. cbn [fmtF]. rewrite HN. reflexivity.
  - destruct H as [Hs HN]. inversion Hr; subst y s'. cbn [fmtF]. rewrite HN. reflexivity.
Qed.

Print Assumptions py_round_fixed_never_raises.
Print Assumptions fmtF_round_absorb.
