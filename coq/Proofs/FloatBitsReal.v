(* The real-number meaning (through Flocq) of the IEEE-754 field encodings of Py/PyBits.v:
   sf_round is round-to-nearest-even into the format, widening to binary64 is exact, and a float
   written to an n-byte binary field reads back as the value rounded to the field's IEEE width. *)
From Coq Require Import ZArith NArith List Bool Arith Lia Reals Lra.
From Coq Require Import Floats.SpecFloat.
From Flocq Require Import Core.Core IEEE754.BinarySingleNaN.
From Cfi Require Import Glue.Sx Py.PyBits.
From Cfi Require Import Proofs.BitsProofs.
Import ListNotations.

Local Open Scope Z_scope.

(* ===================================================================== *)
(* Part A: SpecFloat's rounding is Flocq's, for any precision             *)
(* ===================================================================== *)

Section AnyPrec.
  Variables prec emax : Z.
  Context (Hprec : FLX.Prec_gt_0 prec) (Hmax : Prec_lt_emax prec emax).

  Lemma fb_rne_equiv : forall s m l,
    SpecFloat.round_nearest_even m l = choice_mode mode_NE s m l.
  Proof.
    intros s m l. destruct l as [|c]; [reflexivity|].
    destruct c; [|reflexivity|reflexivity].
    cbn. unfold Round.cond_incr. destruct (Z.even m); reflexivity.
  Qed.

  Lemma fb_round_aux_equiv : forall sx mx ex lx,
    SpecFloat.binary_round_aux prec emax sx mx ex lx =
    BinarySingleNaN.binary_round_aux prec emax mode_NE sx mx ex lx.
  Proof.
    intros sx mx ex lx.
    unfold SpecFloat.binary_round_aux, BinarySingleNaN.binary_round_aux.
    destruct (shr_fexp prec emax mx ex lx) as [mrs' e'].
    rewrite (fb_rne_equiv sx). reflexivity.
  Qed.

  Lemma fb_round_equiv : forall s m e,
    SpecFloat.binary_round prec emax s m e = BinarySingleNaN.binary_round prec emax mode_NE s m e.
  Proof.
    intros s m e.
    unfold SpecFloat.binary_round, BinarySingleNaN.binary_round, shl_align_fexp.
    destruct (shl_align m e (SpecFloat.fexp prec emax (Z.pos (digits2_pos m) + e))) as [mz ez].
    apply fb_round_aux_equiv.
  Qed.

  Lemma fb_normalize_finite : forall (s : bool) (m : positive) (e : Z),
    SpecFloat.binary_normalize prec emax (if s then Zneg m else Zpos m) e s =
    BinarySingleNaN.binary_round prec emax mode_NE s m e.
  Proof.
    intros s m e. rewrite <- fb_round_equiv. destruct s; reflexivity.
  Qed.
End AnyPrec.

(* ===================================================================== *)
(* Part B: one format (mw mantissa bits, ew exponent bits)                *)
(* ===================================================================== *)

(* the side conditions every IEEE interchange format satisfies *)
Definition fmt_wf (mw ew : Z) : Prop := 0 <= mw /\ 0 < ew /\ mw + 1 < 2 ^ (ew - 1).

Lemma fmt_ok_wf : forall mw ew, fmt_ok mw ew -> fmt_wf mw ew.
Proof.
  intros mw ew [E | [E | E]]; inversion E; subst; unfold fmt_wf;
    (split; [lia | split; [lia | apply Z.ltb_lt; vm_compute; reflexivity]]).
Qed.

Definition fmtR (mw ew : Z) : R -> Prop :=
  generic_format radix2 (FLT_exp (femin mw ew) (fprec mw)).
Definition rndR (mw ew : Z) : R -> R :=
  round radix2 (FLT_exp (femin mw ew) (fprec mw)) ZnearestE.

Lemma fb_fexp_eq : forall mw ew k,
  SpecFloat.fexp (fprec mw) (femax ew) k = FLT_exp (femin mw ew) (fprec mw) k.
Proof. intros mw ew k. reflexivity. Qed.

Section Format.
  Variables mw ew : Z.
  Hypothesis Hwf : fmt_wf mw ew.

  Notation prec := (fprec mw).
  Notation emax := (femax ew).
  Notation emin := (femin mw ew).
  Notation valid := (SpecFloat.valid_binary (fprec mw) (femax ew)).

  Local Instance fb_prec_gt_0 : FLX.Prec_gt_0 prec.
  Proof. unfold FLX.Prec_gt_0, fprec. destruct Hwf as [H _]. lia. Qed.

  Local Instance fb_prec_lt_emax : Prec_lt_emax prec emax.
  Proof. unfold Prec_lt_emax, fprec, femax. destruct Hwf as [_ [_ H]]. exact H. Qed.

  (* ---------- 1. sf_round is round-to-nearest-even into the format *)
  Lemma sf_round_finite_spec : forall s m e,
    let x := S754_finite s m e in
    let z := sf_round mw ew x in
    valid z = true /\
    ((Rabs (rndR mw ew (SF2R radix2 x)) < bpow radix2 emax)%R ->
       SF2R radix2 z = rndR mw ew (SF2R radix2 x) /\ is_finite_SF z = true /\ sign_SF z = s) /\
    (~ (Rabs (rndR mw ew (SF2R radix2 x)) < bpow radix2 emax)%R -> z = S754_infinity s).
  Proof.
    intros s m e x z. unfold z, x. cbn [sf_round].
    rewrite (fb_normalize_finite prec emax).
    pose proof (binary_round_correct prec emax fb_prec_gt_0 fb_prec_lt_emax mode_NE s m e) as H.
    cbv zeta in H. destruct H as [Hv H]. split; [exact Hv|].
    change (round radix2 (SpecFloat.fexp prec emax) (round_mode mode_NE)) with (rndR mw ew) in H.
    change (F2R (Float radix2 (SpecFloat.cond_Zopp s (Z.pos m)) e))
      with (SF2R radix2 (S754_finite s m e)) in H.
    destruct (Rlt_bool_spec (Rabs (rndR mw ew (SF2R radix2 (S754_finite s m e)))) (bpow radix2 emax))
      as [Hlt | Hge].
    - split; [intros _; exact H | intros Hn; contradiction].
    - split; [intros Hlt; lra | intros _; exact H].
  Qed.

  Theorem sf_round_correct : forall s m e,
    let x := S754_finite s m e in
    let r := round radix2 (FLT_exp emin prec) ZnearestE (SF2R radix2 x) in
    ((Rabs r < bpow radix2 emax)%R ->
       SF2R radix2 (sf_round mw ew x) = r /\
       valid (sf_round mw ew x) = true /\
       is_finite_SF (sf_round mw ew x) = true /\
       sign_SF (sf_round mw ew x) = s) /\
    (~ (Rabs r < bpow radix2 emax)%R -> sf_round mw ew x = S754_infinity s).
  Proof.
    intros s m e x r.
    destruct (sf_round_finite_spec s m e) as [Hv [H1 H2]].
    split.
    - intros Hlt. destruct (H1 Hlt) as [Ha [Hb Hc]]. repeat split; assumption.
    - exact H2.
  Qed.

  (* sf_round never produces an invalid float or a NaN from a non-NaN *)
  Lemma sf_round_valid : forall x, valid x = true -> valid (sf_round mw ew x) = true.
  Proof.
    intros [s | s | | s m e] Hx; try exact Hx.
    destruct (sf_round_finite_spec s m e) as [Hv _]. exact Hv.
  Qed.

  Lemma sf_round_valid_finite : forall s m e, valid (sf_round mw ew (S754_finite s m e)) = true.
  Proof. intros s m e. destruct (sf_round_finite_spec s m e) as [Hv _]. exact Hv. Qed.

  (* ---------- the values of the format *)
  Lemma valid_fmtR : forall y, valid y = true -> fmtR mw ew (SF2R radix2 y).
  Proof.
    intros [s | s | | s m e] Hy; cbn [SF2R]; try apply generic_format_0.
    cbn [SpecFloat.valid_binary] in Hy.
    apply (generic_format_canonical radix2 (FLT_exp emin prec)
             (Float radix2 (SpecFloat.cond_Zopp s (Zpos m)) e)).
    exact (canonical_bounded prec emax s m e Hy).
  Qed.

  Lemma valid_lt_emax : forall y, valid y = true -> (Rabs (SF2R radix2 y) < bpow radix2 emax)%R.
  Proof.
    intros [s | s | | s m e] Hy; cbn [SF2R]; try (rewrite Rabs_R0; apply bpow_gt_0).
    cbn [SpecFloat.valid_binary] in Hy.
    rewrite <- F2R_Zabs. cbn [Fnum]. rewrite abs_cond_Zopp. cbn [Z.abs].
    exact (bounded_lt_emax prec emax m e Hy).
  Qed.

  (* ---------- 2. nearest point *)
  Theorem sf_round_nearest : forall s m e (y : R),
    let x := S754_finite s m e in
    generic_format radix2 (FLT_exp emin prec) y ->
    (Rabs (round radix2 (FLT_exp emin prec) ZnearestE (SF2R radix2 x)) < bpow radix2 emax)%R ->
    (Rabs (SF2R radix2 (sf_round mw ew x) - SF2R radix2 x) <= Rabs (y - SF2R radix2 x))%R.
  Proof.
    intros s m e y x Hy Hlt.
    destruct (sf_round_finite_spec s m e) as [_ [H1 _]].
    destruct (H1 Hlt) as [Hr _]. fold x in Hr. rewrite Hr.
    destruct (round_N_pt radix2 (FLT_exp emin prec) (fun t => negb (Z.even t)) (SF2R radix2 x))
      as [_ H].
    apply H. exact Hy.
  Qed.

  Corollary sf_round_nearest_sf : forall s m e (y : spec_float),
    let x := S754_finite s m e in
    valid y = true ->
    (Rabs (round radix2 (FLT_exp emin prec) ZnearestE (SF2R radix2 x)) < bpow radix2 emax)%R ->
    (Rabs (SF2R radix2 (sf_round mw ew x) - SF2R radix2 x) <=
     Rabs (SF2R radix2 y - SF2R radix2 x))%R.
  Proof.
    intros s m e y x Hy Hlt. apply sf_round_nearest; [|exact Hlt].
    apply valid_fmtR. exact Hy.
  Qed.

  (* ---------- 3. a value of the format is unchanged *)
  Lemma rndR_id : forall v, fmtR mw ew v -> rndR mw ew v = v.
  Proof. intros v Hv. apply round_generic; auto with typeclass_instances. Qed.

  Theorem sf_round_idem : forall y, valid y = true -> sf_round mw ew y = y.
  Proof.
    intros y Hy. destruct y as [s | s | | s m e]; try reflexivity.
    destruct (sf_round_finite_spec s m e) as [Hv [H1 _]].
    set (y := S754_finite s m e) in *.
    assert (Hid : rndR mw ew (SF2R radix2 y) = SF2R radix2 y) by (apply rndR_id, valid_fmtR; exact Hy).
    assert (Hlt : (Rabs (rndR mw ew (SF2R radix2 y)) < bpow radix2 emax)%R).
    { rewrite Hid. apply valid_lt_emax. exact Hy. }
    destruct (H1 Hlt) as [Hr [Hf Hs]]. rewrite Hid in Hr.
    pose proof (B2R_Bsign_inj prec emax (SF2B (sf_round mw ew y) Hv) (SF2B y Hy)) as Hinj.
    rewrite !is_finite_SF2B, !B2R_SF2B, !Bsign_SF2B in Hinj.
    specialize (Hinj Hf eq_refl Hr Hs).
    apply (f_equal (@B2SF prec emax)) in Hinj. rewrite !B2SF_SF2B in Hinj. exact Hinj.
  Qed.

  Corollary sf_round_idem_R : forall y, valid y = true ->
    SF2R radix2 (sf_round mw ew y) = SF2R radix2 y.
  Proof. intros y Hy. rewrite sf_round_idem by exact Hy. reflexivity. Qed.
End Format.

(* ===================================================================== *)
(* Part C: widening is exact                                              *)
(* ===================================================================== *)

Lemma fb_pow2_radix : forall k, Z.pow radix2 k = 2 ^ k.
Proof. intros k. reflexivity. Qed.

Theorem widen_exact_gen : forall mw1 ew1 mw2 ew2,
  fmt_wf mw1 ew1 -> fmt_wf mw2 ew2 ->
  fprec mw1 <= fprec mw2 -> femin mw2 ew2 <= femin mw1 ew1 -> femax ew1 <= femax ew2 ->
  forall y, SpecFloat.valid_binary (fprec mw1) (femax ew1) y = true ->
  SF2R radix2 (sf_round mw2 ew2 y) = SF2R radix2 y /\
  SpecFloat.valid_binary (fprec mw2) (femax ew2) (sf_round mw2 ew2 y) = true /\
  is_finite_SF (sf_round mw2 ew2 y) = is_finite_SF y /\
  sign_SF (sf_round mw2 ew2 y) = sign_SF y /\
  is_nan_SF (sf_round mw2 ew2 y) = is_nan_SF y.
Proof.
  intros mw1 ew1 mw2 ew2 W1 W2 Hp Hemin Hemax y Hy.
  destruct y as [s | s | | s m e]; try (cbn [sf_round]; repeat split; reflexivity).
  set (y := S754_finite s m e) in *.
  pose proof (valid_fmtR mw1 ew1 y Hy) as Hf1.
  pose proof (valid_lt_emax mw1 ew1 y Hy) as Hlt1.
  assert (Hf2 : fmtR mw2 ew2 (SF2R radix2 y)).
  { unfold fmtR in *.
    destruct (@FLT_format_generic radix2 (femin mw1 ew1) (fprec mw1) (fb_prec_gt_0 mw1 ew1 W1)
                (SF2R radix2 y) Hf1) as [f E1 E2 E3].
    apply generic_format_FLT. apply (FLT_spec radix2 _ _ _ f).
    - exact E1.
    - rewrite fb_pow2_radix in *. apply Z.lt_le_trans with (1 := E2).
      apply Z.pow_le_mono_r; [lia | exact Hp].
    - lia. }
  assert (Hid : rndR mw2 ew2 (SF2R radix2 y) = SF2R radix2 y) by (apply (rndR_id mw2 ew2); exact Hf2).
  assert (Hlt2 : (Rabs (rndR mw2 ew2 (SF2R radix2 y)) < bpow radix2 (femax ew2))%R).
  { rewrite Hid. apply Rlt_le_trans with (1 := Hlt1). apply bpow_le. exact Hemax. }
  destruct (sf_round_finite_spec mw2 ew2 W2 s m e) as [Hv [H1 _]].
  fold y in Hv, H1. destruct (H1 Hlt2) as [Hr [Hfin Hs]]. rewrite Hid in Hr.
  split; [exact Hr|]. split; [exact Hv|]. split; [exact Hfin|]. split; [exact Hs|].
  destruct (sf_round mw2 ew2 y); try reflexivity; discriminate Hfin.
Qed.

Lemma wf_10_5 : fmt_wf 10 5.
Proof. apply fmt_ok_wf. left. reflexivity. Qed.
Lemma wf_23_8 : fmt_wf 23 8.
Proof. apply fmt_ok_wf. right. left. reflexivity. Qed.
Lemma wf_52_11 : fmt_wf 52 11.
Proof. apply fmt_ok_wf. right. right. reflexivity. Qed.

(* every format of fmt_ok embeds in binary64 *)
Lemma fmt_ok_le64 : forall mw ew, fmt_ok mw ew ->
  fprec mw <= fprec 52 /\ femin 52 11 <= femin mw ew /\ femax ew <= femax 11.
Proof.
  intros mw ew [E | [E | E]]; inversion E; subst;
    (split; [|split]); apply Z.leb_le; vm_compute; reflexivity.
Qed.

Theorem widen_exact_fmt : forall mw ew y, fmt_ok mw ew ->
  SpecFloat.valid_binary (fprec mw) (femax ew) y = true ->
  SF2R radix2 (sf_round 52 11 y) = SF2R radix2 y /\
  SpecFloat.valid_binary 53 1024 (sf_round 52 11 y) = true /\
  is_finite_SF (sf_round 52 11 y) = is_finite_SF y /\
  sign_SF (sf_round 52 11 y) = sign_SF y /\
  is_nan_SF (sf_round 52 11 y) = is_nan_SF y.
Proof.
  intros mw ew y Hok Hy.
  destruct (fmt_ok_le64 mw ew Hok) as [H1 [H2 H3]].
  exact (widen_exact_gen mw ew 52 11 (fmt_ok_wf mw ew Hok) wf_52_11 H1 H2 H3 y Hy).
Qed.

(* ---------- 4. binary16 / binary32 -> binary64 *)
Theorem widen_exact : forall y,
  (SpecFloat.valid_binary 11 16 y = true \/ SpecFloat.valid_binary 24 128 y = true) ->
  is_finite_SF y = true ->
  SF2R radix2 (sf_round 52 11 y) = SF2R radix2 y /\
  SpecFloat.valid_binary 53 1024 (sf_round 52 11 y) = true /\
  is_finite_SF (sf_round 52 11 y) = true /\
  sign_SF (sf_round 52 11 y) = sign_SF y.
Proof.
  intros y Hy Hfin.
  assert (H : exists mw ew, fmt_ok mw ew /\ SpecFloat.valid_binary (fprec mw) (femax ew) y = true).
  { destruct Hy as [Hy | Hy].
    - exists 10, 5. split; [left; reflexivity | exact Hy].
    - exists 23, 8. split; [right; left; reflexivity | exact Hy]. }
  destruct H as [mw [ew [Hok Hv]]].
  destruct (widen_exact_fmt mw ew y Hok Hv) as [H1 [H2 [H3 [H4 _]]]].
  rewrite Hfin in H3. repeat split; assumption.
Qed.

(* ===================================================================== *)
(* Part D: the bit pattern of a valid float decodes to that float         *)
(* ===================================================================== *)

(* what validity says about mantissa and exponent *)
Lemma bounded_cases : forall mw ew m e, fmt_wf mw ew ->
  SpecFloat.bounded (fprec mw) (femax ew) m e = true ->
  (Zpos m < 2 ^ mw /\ e = femin mw ew) \/
  (2 ^ mw <= Zpos m < 2 ^ (mw + 1) /\ femin mw ew <= e <= femax ew - fprec mw).
Proof.
  intros mw ew m e [Hmw [Hew Hlt]] Hb.
  unfold SpecFloat.bounded, SpecFloat.canonical_mantissa in Hb.
  apply andb_prop in Hb. destruct Hb as [Hc He].
  apply Zeq_bool_eq in Hc. apply Zle_bool_imp_le in He.
  rewrite Zpos_digits2_pos in Hc.
  unfold SpecFloat.fexp, SpecFloat.emin in Hc.
  fold (femin mw ew) in Hc.
  assert (Hd : 2 ^ (Zdigits radix2 (Zpos m) - 1) <= Zpos m < 2 ^ Zdigits radix2 (Zpos m))
    by exact (Zdigits_correct radix2 (Zpos m)).
  set (d := Zdigits radix2 (Zpos m)) in *.
  unfold fprec in *.
  destruct (Z_le_gt_dec d mw) as [Hdm | Hdm].
  - left. split.
    + apply Z.lt_le_trans with (2 ^ d); [lia|]. apply Z.pow_le_mono_r; lia.
    + lia.
  - right.
    assert (Hdeq : d = mw + 1) by lia.
    rewrite Hdeq in Hd. replace (mw + 1 - 1) with mw in Hd by lia.
    split; [exact Hd | lia].
Qed.

(* the three fields of  sb * 2^(mw+ew) + ex * 2^mw + mant *)
Lemma fb_fields : forall mw ew sb ex mant, 0 <= mw -> 0 <= ew ->
  0 <= sb < 2 -> 0 <= ex < 2 ^ ew -> 0 <= mant < 2 ^ mw ->
  let b := sb * 2 ^ (mw + ew) + ex * 2 ^ mw + mant in
  b mod 2 ^ mw = mant /\ (b / 2 ^ mw) mod 2 ^ ew = ex /\ (b / 2 ^ (mw + ew)) mod 2 = sb /\
  0 <= b < 2 ^ (mw + ew + 1).
Proof.
  intros mw ew sb ex mant Hmw Hew Hsb Hex Hmant b.
  assert (Pm : 0 < 2 ^ mw) by (apply Z.pow_pos_nonneg; lia).
  assert (Pe : 0 < 2 ^ ew) by (apply Z.pow_pos_nonneg; lia).
  assert (Hadd : 2 ^ (mw + ew) = 2 ^ mw * 2 ^ ew) by (apply Z.pow_add_r; lia).
  assert (Hadd1 : 2 ^ (mw + ew + 1) = 2 ^ mw * 2 ^ ew * 2).
  { rewrite (Z.pow_add_r 2 (mw + ew) 1) by lia. rewrite Hadd. reflexivity. }
  assert (Hb : b = (sb * 2 ^ ew + ex) * 2 ^ mw + mant) by (unfold b; rewrite Hadd; ring).
  assert (Hq : b / 2 ^ mw = sb * 2 ^ ew + ex).
  { rewrite Hb. rewrite Z.div_add_l by lia. rewrite Z.div_small by lia. lia. }
  assert (Hq2 : b / 2 ^ (mw + ew) = sb).
  { rewrite Hadd. rewrite <- Z.div_div by lia. rewrite Hq.
    rewrite Z.div_add_l by lia. rewrite Z.div_small by lia. lia. }
  split; [|split; [|split]].
  - rewrite Hb. rewrite Z.add_comm. rewrite Z.mod_add by lia. apply Z.mod_small. lia.
  - rewrite Hq. rewrite Z.add_comm. rewrite Z.mod_add by lia. apply Z.mod_small. lia.
  - rewrite Hq2. apply Z.mod_small. lia.
  - rewrite Hadd1. rewrite Hb. nia.
Qed.

Lemma fb_sign_bit : forall mw ew s,
  sign_bit mw ew s = (if s then 1 else 0) * 2 ^ (mw + ew).
Proof. intros mw ew s. unfold sign_bit. destruct s; lia. Qed.

Lemma fb_sign_dec : forall s : bool, ((if s then 1 else 0) =? 1) = s.
Proof. intros [|]; reflexivity. Qed.

Lemma fb_sign_rng : forall s : bool, 0 <= (if s then 1 else 0) < 2.
Proof. intros [|]; lia. Qed.

Theorem sf_of_bits_of_sf : forall mw ew z, fmt_wf mw ew ->
  SpecFloat.valid_binary (fprec mw) (femax ew) z = true -> is_nan_SF z = false ->
  sf_of_bits mw ew (bits_of_sf mw ew z) = z /\ 0 <= bits_of_sf mw ew z < 2 ^ (mw + ew + 1).
Proof.
  intros mw ew z Hwf Hv Hn.
  pose proof Hwf as [Hmw [Hew Hlt]].
  assert (Pm : 0 < 2 ^ mw) by (apply Z.pow_pos_nonneg; lia).
  assert (Pe : 2 ^ ew = 2 * femax ew).
  { unfold femax. replace ew with (Z.succ (ew - 1)) at 1 by lia. apply Z.pow_succ_r. lia. }
  assert (Pmax : 0 < femax ew) by (unfold femax; apply Z.pow_pos_nonneg; lia).
  assert (Hmw1 : 2 ^ (mw + 1) = 2 * 2 ^ mw).
  { replace (mw + 1) with (Z.succ mw) by lia. apply Z.pow_succ_r. lia. }
  (* the common shape *)
  assert (Core : forall s ex mant, 0 <= ex < 2 ^ ew -> 0 <= mant < 2 ^ mw ->
    let b := sign_bit mw ew s + ex * 2 ^ mw + mant in
    (b mod 2 ^ mw = mant /\ (b / 2 ^ mw) mod 2 ^ ew = ex /\
     ((b / 2 ^ (mw + ew)) mod 2 =? 1) = s) /\ 0 <= b < 2 ^ (mw + ew + 1)).
  { intros s ex mant Hex Hmant b. unfold b. rewrite fb_sign_bit.
    destruct (fb_fields mw ew (if s then 1 else 0) ex mant Hmw (Z.lt_le_incl _ _ Hew)
                (fb_sign_rng s) Hex Hmant) as [F1 [F2 [F3 F4]]].
    split; [|exact F4]. split; [exact F1|]. split; [exact F2|].
    rewrite F3. apply fb_sign_dec. }
  destruct z as [s | s | | s m e]; [| | discriminate Hn |].
  - (* zero *)
    cbn [bits_of_sf].
    destruct (Core s 0 0 ltac:(lia) ltac:(lia)) as [[F1 [F2 F3]] F4].
    cbv zeta in F1, F2, F3, F4. rewrite Z.mul_0_l, !Z.add_0_r in F1, F2, F3, F4.
    split; [|exact F4].
    unfold sf_of_bits. rewrite F1, F2, F3. cbn [Z.eqb]. reflexivity.
  - (* infinity *)
    cbn [bits_of_sf].
    destruct (Core s (2 ^ ew - 1) 0 ltac:(lia) ltac:(lia)) as [[F1 [F2 F3]] F4].
    cbv zeta in F1, F2, F3, F4. rewrite !Z.add_0_r in F1, F2, F3, F4.
    split; [|exact F4].
    unfold sf_of_bits. rewrite F1, F2, F3.
    assert (E0 : (2 ^ ew - 1 =? 0) = false) by (apply Z.eqb_neq; lia).
    rewrite E0, Z.eqb_refl. cbn [Z.eqb]. reflexivity.
  - (* finite *)
    cbn [SpecFloat.valid_binary] in Hv.
    destruct (bounded_cases mw ew m e Hwf Hv) as [[Hm He] | [Hm He]].
    + (* subnormal *)
      cbn [bits_of_sf].
      assert (E1 : (Z.pos m <? 2 ^ mw) = true) by (apply Z.ltb_lt; exact Hm).
      rewrite E1.
      destruct (Core s 0 (Zpos m) ltac:(lia) ltac:(lia)) as [[F1 [F2 F3]] F4].
      cbv zeta in F1, F2, F3, F4. rewrite Z.mul_0_l, !Z.add_0_r in F1, F2, F3, F4.
      split; [|exact F4].
      unfold sf_of_bits. rewrite F1, F2, F3. cbn [Z.eqb]. rewrite He. reflexivity.
    + (* normal *)
      cbn [bits_of_sf].
      assert (E1 : (Z.pos m <? 2 ^ mw) = false) by (apply Z.ltb_ge; lia).
      rewrite E1.
      unfold femin, fprec in He. fold (femin mw ew) in He.
      assert (Hex : 0 <= e - femin mw ew + 1 < 2 ^ ew) by (unfold femin, fprec; lia).
      destruct (Core s (e - femin mw ew + 1) (Zpos m - 2 ^ mw) Hex ltac:(lia)) as [[F1 [F2 F3]] F4].
      cbv zeta in F1, F2, F3, F4.
      split; [|exact F4].
      unfold sf_of_bits. rewrite F1, F2, F3.
      assert (E0 : (e - femin mw ew + 1 =? 0) = false) by (apply Z.eqb_neq; unfold femin, fprec; lia).
      assert (E2 : (e - femin mw ew + 1 =? 2 ^ ew - 1) = false)
        by (apply Z.eqb_neq; unfold femin, fprec; lia).
      rewrite E0, E2.
      replace (Z.pos m - 2 ^ mw + 2 ^ mw) with (Zpos m) by lia.
      replace (e - femin mw ew + 1 + femin mw ew - 1) with e by lia.
      reflexivity.
Qed.

(* ===================================================================== *)
(* Part E: a float written to an n-byte binary field and read back        *)
(* ===================================================================== *)

Definition width_fmt (n : nat) (mw ew : Z) : Prop :=
  (n = 2%nat /\ mw = 10 /\ ew = 5) \/ (n = 4%nat /\ mw = 23 /\ ew = 8) \/
  (n = 8%nat /\ mw = 52 /\ ew = 11).

Lemma width_fmt_of : forall n, (n = 2 \/ n = 4 \/ n = 8)%nat ->
  width_fmt n (fst (fmt_of_width n)) (snd (fmt_of_width n)).
Proof.
  intros n [E | [E | E]]; subst n; unfold width_fmt; cbn [fmt_of_width fst snd];
    [left | right; left | right; right]; repeat split; reflexivity.
Qed.

Lemma width_fmt_facts : forall n mw ew, width_fmt n mw ew ->
  fmt_ok mw ew /\ fmt_of_width n = (mw, ew) /\ 8 * Z.of_nat n = mw + ew + 1.
Proof.
  intros n mw ew [[E1 [E2 E3]] | [[E1 [E2 E3]] | [E1 [E2 E3]]]]; subst n mw ew.
  - split; [left; reflexivity | split; reflexivity].
  - split; [right; left; reflexivity | split; reflexivity].
  - split; [right; right; reflexivity | split; reflexivity].
Qed.

Lemma sf_round_not_nan : forall mw ew x, fmt_wf mw ew -> is_nan_SF x = false ->
  is_nan_SF (sf_round mw ew x) = false /\
  SpecFloat.valid_binary (fprec mw) (femax ew) (sf_round mw ew x) = true.
Proof.
  intros mw ew x Hwf Hn. destruct x as [s | s | | s m e]; try (split; [exact Hn | reflexivity]).
  destruct (sf_round_finite_spec mw ew Hwf s m e) as [Hv [H1 H2]].
  split; [|exact Hv].
  destruct (Rlt_dec (Rabs (rndR mw ew (SF2R radix2 (S754_finite s m e)))) (bpow radix2 (femax ew)))
    as [Hlt | Hge].
  - destruct (H1 Hlt) as [_ [Hf _]].
    destruct (sf_round mw ew (S754_finite s m e)); try reflexivity; discriminate Hf.
  - rewrite (H2 Hge). reflexivity.
Qed.

(* the bytes decode to the stored (rounded) value, widened *)
Theorem float_dec_enc_eq : forall n mw ew x, width_fmt n mw ew -> is_nan_SF x = false ->
  float_dec n (float_enc n x) = Some (sf_round 52 11 (sf_round mw ew x)).
Proof.
  intros n mw ew x Hw Hn.
  destruct (width_fmt_facts n mw ew Hw) as [Hok [Hfmt Hbits]].
  pose proof (fmt_ok_wf mw ew Hok) as Hwf.
  destruct (sf_round_not_nan mw ew x Hwf Hn) as [Hn' Hv].
  destruct (sf_of_bits_of_sf mw ew (sf_round mw ew x) Hwf Hv Hn') as [Hinv Hrng].
  assert (He : float_enc n x = le_bytes n (bits_of_sf mw ew (sf_round mw ew x))).
  { unfold float_enc. rewrite Hfmt. reflexivity. }
  unfold float_dec. rewrite float_enc_length, Nat.ltb_irrefl, Hfmt, He.
  rewrite firstn_all2 by (rewrite le_bytes_length; apply Nat.le_refl).
  rewrite le_value_le_bytes by (rewrite Hbits; exact Hrng).
  rewrite Hinv. reflexivity.
Qed.

(* ---------- 5. reads back as the value rounded to the field's IEEE width *)
Theorem float_dec_enc : forall n mw ew x, width_fmt n mw ew -> is_finite_SF x = true ->
  let r := round radix2 (FLT_exp (femin mw ew) (fprec mw)) ZnearestE (SF2R radix2 x) in
  (Rabs r < bpow radix2 (femax ew))%R ->
  exists y, float_dec n (float_enc n x) = Some y /\ SF2R radix2 y = r /\
            SpecFloat.valid_binary 53 1024 y = true /\ is_finite_SF y = true /\
            (r <> 0%R -> sign_SF y = sign_SF x).
Proof.
  intros n mw ew x Hw Hfin r Hlt.
  destruct (width_fmt_facts n mw ew Hw) as [Hok [Hfmt Hbits]].
  pose proof (fmt_ok_wf mw ew Hok) as Hwf.
  assert (Hn : is_nan_SF x = false) by (destruct x; try reflexivity; discriminate Hfin).
  exists (sf_round 52 11 (sf_round mw ew x)).
  split; [apply float_dec_enc_eq; assumption|].
  destruct (sf_round_not_nan mw ew x Hwf Hn) as [_ Hv].
  destruct (widen_exact_fmt mw ew (sf_round mw ew x) Hok Hv) as [W1 [W2 [W3 [W4 _]]]].
  rewrite W1, W3, W4.
  destruct x as [s | s | | s m e]; try discriminate Hfin.
  - cbn [sf_round SF2R is_finite_SF]. unfold r. cbn [SF2R].
    rewrite round_0 by auto with typeclass_instances.
    repeat split; try reflexivity; assumption.
  - destruct (sf_round_finite_spec mw ew Hwf s m e) as [_ [H1 _]].
    destruct (H1 Hlt) as [Ha [Hb Hc]].
    split; [exact Ha|]. split; [exact W2|]. split; [exact Hb|]. intros _. exact Hc.
Qed.

(* the overflow case: the field holds the infinity of the sign of x *)
Theorem float_dec_enc_overflow : forall n mw ew s m e, width_fmt n mw ew ->
  let x := S754_finite s m e in
  let r := round radix2 (FLT_exp (femin mw ew) (fprec mw)) ZnearestE (SF2R radix2 x) in
  ~ (Rabs r < bpow radix2 (femax ew))%R ->
  float_dec n (float_enc n x) = Some (S754_infinity s).
Proof.
  intros n mw ew s m e Hw x r Hge.
  destruct (width_fmt_facts n mw ew Hw) as [Hok [Hfmt Hbits]].
  pose proof (fmt_ok_wf mw ew Hok) as Hwf.
  rewrite (float_dec_enc_eq n mw ew x Hw eq_refl).
  destruct (sf_round_finite_spec mw ew Hwf s m e) as [_ [_ H2]].
  fold x in H2. rewrite (H2 Hge). reflexivity.
Qed.

(* n = 8: a valid binary64 reads back as itself *)
Theorem float_dec_enc_64 : forall x, SpecFloat.valid_binary 53 1024 x = true ->
  is_nan_SF x = false -> float_dec 8 (float_enc 8 x) = Some x.
Proof.
  intros x Hv Hn.
  assert (Hw : width_fmt 8 52 11) by (right; right; repeat split; reflexivity).
  rewrite (float_dec_enc_eq 8 52 11 x Hw Hn).
  rewrite (sf_round_idem 52 11 wf_52_11 x Hv).
  rewrite (sf_round_idem 52 11 wf_52_11 x Hv). reflexivity.
Qed.

(* n = 2, 4: a double that is a value of the narrow format reads back with the same value *)
Theorem float_dec_enc_exact : forall n mw ew x, width_fmt n mw ew -> is_finite_SF x = true ->
  generic_format radix2 (FLT_exp (femin mw ew) (fprec mw)) (SF2R radix2 x) ->
  (Rabs (SF2R radix2 x) < bpow radix2 (femax ew))%R ->
  exists y, float_dec n (float_enc n x) = Some y /\ SF2R radix2 y = SF2R radix2 x.
Proof.
  intros n mw ew x Hw Hfin Hg Hlt.
  assert (Hid : round radix2 (FLT_exp (femin mw ew) (fprec mw)) ZnearestE (SF2R radix2 x) =
                SF2R radix2 x) by (apply round_generic; auto with typeclass_instances).
  pose proof (float_dec_enc n mw ew x Hw Hfin) as H. cbv zeta in H. rewrite Hid in H.
  destruct (H Hlt) as [y [H1 [H2 _]]]. exists y. split; assumption.
Qed.

(* the three formats, spelled out *)
Corollary sf_round_correct_fmt : forall mw ew s m e, fmt_ok mw ew ->
  let x := S754_finite s m e in
  let r := round radix2 (FLT_exp (femin mw ew) (fprec mw)) ZnearestE (SF2R radix2 x) in
  ((Rabs r < bpow radix2 (femax ew))%R ->
     SF2R radix2 (sf_round mw ew x) = r /\
     SpecFloat.valid_binary (fprec mw) (femax ew) (sf_round mw ew x) = true /\
     is_finite_SF (sf_round mw ew x) = true /\ sign_SF (sf_round mw ew x) = s) /\
  (~ (Rabs r < bpow radix2 (femax ew))%R -> sf_round mw ew x = S754_infinity s).
Proof. intros mw ew s m e Hok. exact (sf_round_correct mw ew (fmt_ok_wf mw ew Hok) s m e). Qed.

Corollary sf_round_correct_16 : forall s m e,
  let x := S754_finite s m e in
  let r := round radix2 (FLT_exp (-24) 11) ZnearestE (SF2R radix2 x) in
  ((Rabs r < bpow radix2 16)%R ->
     SF2R radix2 (sf_round 10 5 x) = r /\ SpecFloat.valid_binary 11 16 (sf_round 10 5 x) = true /\
     is_finite_SF (sf_round 10 5 x) = true /\ sign_SF (sf_round 10 5 x) = s) /\
  (~ (Rabs r < bpow radix2 16)%R -> sf_round 10 5 x = S754_infinity s).
Proof. intros s m e. exact (sf_round_correct 10 5 wf_10_5 s m e). Qed.

Corollary sf_round_correct_32 : forall s m e,
  let x := S754_finite s m e in
  let r := round radix2 (FLT_exp (-149) 24) ZnearestE (SF2R radix2 x) in
  ((Rabs r < bpow radix2 128)%R ->
     SF2R radix2 (sf_round 23 8 x) = r /\ SpecFloat.valid_binary 24 128 (sf_round 23 8 x) = true /\
     is_finite_SF (sf_round 23 8 x) = true /\ sign_SF (sf_round 23 8 x) = s) /\
  (~ (Rabs r < bpow radix2 128)%R -> sf_round 23 8 x = S754_infinity s).
Proof. intros s m e. exact (sf_round_correct 23 8 wf_23_8 s m e). Qed.

Corollary sf_round_correct_64 : forall s m e,
  let x := S754_finite s m e in
  let r := round radix2 (FLT_exp (-1074) 53) ZnearestE (SF2R radix2 x) in
  ((Rabs r < bpow radix2 1024)%R ->
     SF2R radix2 (sf_round 52 11 x) = r /\ SpecFloat.valid_binary 53 1024 (sf_round 52 11 x) = true /\
     is_finite_SF (sf_round 52 11 x) = true /\ sign_SF (sf_round 52 11 x) = s) /\
  (~ (Rabs r < bpow radix2 1024)%R -> sf_round 52 11 x = S754_infinity s).
Proof. intros s m e. exact (sf_round_correct 52 11 wf_52_11 s m e). Qed.

Corollary sf_round_nearest_fmt : forall mw ew s m e (y : R), fmt_ok mw ew ->
  let x := S754_finite s m e in
  generic_format radix2 (FLT_exp (femin mw ew) (fprec mw)) y ->
  (Rabs (round radix2 (FLT_exp (femin mw ew) (fprec mw)) ZnearestE (SF2R radix2 x))
     < bpow radix2 (femax ew))%R ->
  (Rabs (SF2R radix2 (sf_round mw ew x) - SF2R radix2 x) <= Rabs (y - SF2R radix2 x))%R.
Proof. intros mw ew s m e y Hok. exact (sf_round_nearest mw ew (fmt_ok_wf mw ew Hok) s m e y). Qed.

Corollary sf_round_idem_fmt : forall mw ew y, fmt_ok mw ew ->
  SpecFloat.valid_binary (fprec mw) (femax ew) y = true -> sf_round mw ew y = y.
Proof. intros mw ew y Hok. exact (sf_round_idem mw ew (fmt_ok_wf mw ew Hok) y). Qed.

(* the field widths, spelled out *)
Corollary float_dec_enc_2 : forall x, is_finite_SF x = true ->
  let r := round radix2 (FLT_exp (-24) 11) ZnearestE (SF2R radix2 x) in
  (Rabs r < bpow radix2 16)%R ->
  exists y, float_dec 2 (float_enc 2 x) = Some y /\ SF2R radix2 y = r /\
            SpecFloat.valid_binary 53 1024 y = true.
Proof.
  intros x Hfin r Hlt.
  assert (Hw : width_fmt 2 10 5) by (left; repeat split; reflexivity).
  destruct (float_dec_enc 2 10 5 x Hw Hfin Hlt) as [y [H1 [H2 [H3 _]]]].
  exists y. repeat split; assumption.
Qed.

Corollary float_dec_enc_4 : forall x, is_finite_SF x = true ->
  let r := round radix2 (FLT_exp (-149) 24) ZnearestE (SF2R radix2 x) in
  (Rabs r < bpow radix2 128)%R ->
  exists y, float_dec 4 (float_enc 4 x) = Some y /\ SF2R radix2 y = r /\
            SpecFloat.valid_binary 53 1024 y = true.
Proof.
  intros x Hfin r Hlt.
  assert (Hw : width_fmt 4 23 8) by (right; left; repeat split; reflexivity).
  destruct (float_dec_enc 4 23 8 x Hw Hfin Hlt) as [y [H1 [H2 [H3 _]]]].
  exists y. repeat split; assumption.
Qed.

Corollary float_dec_enc_8 : forall x, is_finite_SF x = true ->
  let r := round radix2 (FLT_exp (-1074) 53) ZnearestE (SF2R radix2 x) in
  (Rabs r < bpow radix2 1024)%R ->
  exists y, float_dec 8 (float_enc 8 x) = Some y /\ SF2R radix2 y = r /\
            SpecFloat.valid_binary 53 1024 y = true.
Proof.
  intros x Hfin r Hlt.
  assert (Hw : width_fmt 8 52 11) by (right; right; repeat split; reflexivity).
  destruct (float_dec_enc 8 52 11 x Hw Hfin Hlt) as [y [H1 [H2 [H3 _]]]].
  exists y. repeat split; assumption.
Qed.

Print Assumptions sf_round_correct.
Print Assumptions sf_round_correct_fmt.
Print Assumptions sf_round_correct_16.
Print Assumptions sf_round_correct_32.
Print Assumptions sf_round_correct_64.
Print Assumptions sf_round_nearest.
Print Assumptions sf_round_nearest_sf.
Print Assumptions sf_round_nearest_fmt.
Print Assumptions sf_round_idem.
Print Assumptions sf_round_idem_fmt.
Print Assumptions widen_exact_gen.
Print Assumptions widen_exact_fmt.
Print Assumptions widen_exact.
Print Assumptions sf_of_bits_of_sf.
Print Assumptions float_dec_enc_eq.
Print Assumptions float_dec_enc.
Print Assumptions float_dec_enc_overflow.
Print Assumptions float_dec_enc_64.
Print Assumptions float_dec_enc_exact.
Print Assumptions float_dec_enc_2.
Print Assumptions float_dec_enc_4.
Print Assumptions float_dec_enc_8.
