(* The regular-expression matcher of Py/PyRe.v decides the denotational semantics of regular expressions
   (for every expression and subject, no bound): [ends] computes exactly the set of end positions, the ordered
   sweep computes the reflexive-transitive closure for the star, literals coincide with substring search. *)
From Coq Require Import ZArith NArith List Bool Arith Lia.
From Cfi Require Import Glue.Sx Py.PyStr Py.PyNum Py.PyRe.
Import ListNotations.

(* ---------- the specification: r matches s[i:j] *)
Inductive M (s : str) : re -> nat -> nat -> Prop :=
| MEps i : M s REps i i
| MChr c i x : nth_error s i = Some x -> cmatch c x = true -> M s (RChr c) i (S i)
| MBol : M s RBol 0 0
| MEol i : at_eol s i = true -> M s REol i i
| MSeq a b i j k : M s a i j -> M s b j k -> M s (RSeq a b) i k
| MAltL a b i j : M s a i j -> M s (RAlt a b) i j
| MAltR a b i j : M s b i j -> M s (RAlt a b) i j
| MStar0 a i : M s (RStar a) i i
| MStarS a i j k : M s a i j -> M s (RStar a) j k -> M s (RStar a) i k.

Section Sem.
  Variable s : str.
  Notation n := (length s).

  Lemma M_mono : forall r i j, M s r i j -> i <= j.
  Proof. intros r i j H. induction H; lia. Qed.

  Lemma M_bound : forall r i j, M s r i j -> i <= n -> j <= n.
  Proof.
    intros r i j H. induction H; intros Hi; try lia; auto.
    assert (Hlt : i < n) by (apply nth_error_Some; congruence). lia.
  Qed.

  (* the star with progress: every round consumes at least one character *)
  Inductive MP (a : re) : nat -> nat -> Prop :=
  | MP0 i : MP a i i
  | MPS i j k : M s a i j -> i < j -> MP a j k -> MP a i k.

  Lemma star_MP : forall a i k, M s (RStar a) i k -> MP a i k.
  Proof.
    intros a i k H. remember (RStar a) as r eqn:Er. revert a Er.
    induction H; intros a' Er; inversion Er; subst.
    - constructor.
    - pose proof (IHM2 a' eq_refl) as Hjk. pose proof (M_mono _ _ _ H) as Hle.
      destruct (Nat.eq_dec i j) as [->|Hne]; [exact Hjk|].
      eapply MPS; [exact H|lia|exact Hjk].
  Qed.

  Lemma MP_star : forall a i k, MP a i k -> M s (RStar a) i k.
  Proof. intros a i k H. induction H; [constructor|eapply MStarS; eassumption]. Qed.

  Lemma star_snoc : forall a i j k, M s (RStar a) i j -> M s a j k -> M s (RStar a) i k.
  Proof.
    intros a i j k H. remember (RStar a) as r eqn:Er. revert a Er k.
    induction H; intros a' Er k' Hk; inversion Er; subst.
    - eapply MStarS; [exact Hk|constructor].
    - eapply MStarS; [exact H|]. eapply IHM2; [reflexivity|exact Hk].
  Qed.

  (* ---------- list helpers *)
  Lemma mem_In : forall i l, existsb (Nat.eqb i) l = true <-> In i l.
  Proof.
    intros i l. rewrite existsb_exists. split.
    - intros [x [Hx He]]. apply Nat.eqb_eq in He. subst. exact Hx.
    - intros H. exists i. split; [exact H|apply Nat.eqb_refl].
  Qed.

  Lemma add_new_In : forall new acc x, In x (add_new new acc) <-> In x new \/ In x acc.
  Proof.
    induction new as [|j new IH]; intros acc x; cbn [add_new fold_right].
    - cbn [In]. tauto.
    - fold (add_new new acc). destruct (existsb (Nat.eqb j) (add_new new acc)) eqn:E.
      + apply mem_In in E. rewrite IH in E. rewrite IH. cbn [In]. split; [tauto|].
        intros [[->|H]|H]; tauto.
      + cbn [In]. rewrite IH. tauto.
  Qed.

  Lemma sweep_incl : forall step l acc x, In x acc -> In x (sweep step l acc).
  Proof.
    intros step l. induction l as [|i l IH]; intros acc x H; cbn [sweep]; [exact H|].
    apply IH. destruct (existsb (Nat.eqb i) acc); [apply add_new_In; right; exact H|exact H].
  Qed.

  Lemma nonempty_ex : forall (l : list nat), nonempty l = true <-> exists x, In x l.
  Proof.
    intros l. destruct l as [|a l]; cbn.
    - split; [discriminate|intros [x []]].
    - split; [intros _; exists a; left; reflexivity|reflexivity].
  Qed.

  (* ---------- soundness *)
  Lemma sweep_sound : forall a step X,
    (forall Y j, In j (step Y) -> exists i, In i Y /\ M s a i j) ->
    forall l acc,
      (forall x, In x acc -> exists i, In i X /\ M s (RStar a) i x) ->
      forall j, In j (sweep step l acc) -> exists i, In i X /\ M s (RStar a) i j.
  Proof.
    intros a step X Hstep l. induction l as [|m l IH]; intros acc Hacc j Hj; cbn [sweep] in Hj.
    - apply Hacc. exact Hj.
    - eapply IH; [|exact Hj]. intros x Hx.
      destruct (existsb (Nat.eqb m) acc) eqn:E; [|apply Hacc; exact Hx].
      apply add_new_In in Hx. destruct Hx as [Hx|Hx]; [|apply Hacc; exact Hx].
      apply Hstep in Hx. destruct Hx as [i0 [Hi0 HM]]. destruct Hi0 as [<-|[]].
      apply mem_In in E. destruct (Hacc m E) as [i [Hi Hs]].
      exists i. split; [exact Hi|]. eapply star_snoc; eassumption.
  Qed.

  Theorem ends_sound : forall r X j, In j (ends s r X) -> exists i, In i X /\ M s r i j.
  Proof.
    induction r as [|c| | |a IHa b IHb|a IHa b IHb|a IHa]; intros X j H; cbn [ends] in H.
    - exists j. split; [exact H|constructor].
    - unfold chr_step in H. apply in_flat_map in H. destruct H as [i [Hi Hj]].
      destruct (nth_error s i) as [x|] eqn:En; [|destruct Hj].
      destruct (cmatch c x) eqn:Ec; [|destruct Hj]. destruct Hj as [<-|[]].
      exists i. split; [exact Hi|]. econstructor; eassumption.
    - apply filter_In in H. destruct H as [Hj E]. apply Nat.eqb_eq in E. subst.
      exists 0. split; [exact Hj|constructor].
    - apply filter_In in H. destruct H as [Hj E]. exists j. split; [exact Hj|constructor; exact E].
    - apply IHb in H. destruct H as [k [Hk Hb]]. apply IHa in Hk. destruct Hk as [i [Hi Ha]].
      exists i. split; [exact Hi|]. econstructor; eassumption.
    - apply nodup_In in H. apply in_app_or in H. destruct H as [H|H].
      + apply IHa in H. destruct H as [i [Hi Ha]]. exists i. split; [exact Hi|]. apply MAltL. exact Ha.
      + apply IHb in H. destruct H as [i [Hi Hb]]. exists i. split; [exact Hi|]. apply MAltR. exact Hb.
    - eapply sweep_sound; [exact IHa| |exact H].
      intros x Hx. exists x. split; [exact Hx|constructor].
  Qed.

  (* ---------- completeness *)
  Lemma sweep_complete : forall a step,
    (forall Y i j, In i Y -> i <= n -> M s a i j -> In j (step Y)) ->
    forall len m acc i k,
      m + len = S n -> In i acc -> m <= i -> i <= n -> MP a i k -> In k (sweep step (seq m len) acc).
  Proof.
    intros a step Hstep len. induction len as [|len IH]; intros m acc i k Hml Hi Hmi Hin HP.
    - lia.
    - cbn [seq sweep].
      set (acc' := if existsb (Nat.eqb m) acc then add_new (step [m]) acc else acc).
      assert (Hsub : forall x, In x acc -> In x acc').
      { intros x Hx. unfold acc'. destruct (existsb (Nat.eqb m) acc); [apply add_new_In; right; exact Hx|exact Hx]. }
      destruct HP as [i|i j k HM Hlt HP'].
      + apply sweep_incl. apply Hsub. exact Hi.
      + destruct (Nat.eq_dec i m) as [->|Hne].
        * assert (Hj : In j acc').
          { unfold acc'. apply mem_In in Hi. rewrite Hi. apply add_new_In. left.
            eapply Hstep; [left; reflexivity|exact Hin|exact HM]. }
          pose proof (M_bound _ _ _ HM Hin) as Hjn.
          eapply IH with (i := j); [lia|exact Hj|lia|exact Hjn|exact HP'].
        * eapply IH with (i := i); [lia|apply Hsub; exact Hi|lia|exact Hin|].
          eapply MPS; eassumption.
  Qed.

  Theorem ends_complete : forall r X i j, In i X -> i <= n -> M s r i j -> In j (ends s r X).
  Proof.
    induction r as [|c| | |a IHa b IHb|a IHa b IHb|a IHa]; intros X i j Hi Hin H; cbn [ends].
    - inversion H; subst. exact Hi.
    - inversion H; subst. unfold chr_step. apply in_flat_map. exists i. split; [exact Hi|].
      match goal with E : nth_error s i = Some _ |- _ => rewrite E end.
      match goal with E : cmatch c _ = true |- _ => rewrite E end. left. reflexivity.
    - inversion H; subst. apply filter_In. split; [exact Hi|reflexivity].
    - inversion H; subst. apply filter_In. split; [exact Hi|assumption].
    - inversion H; subst.
      match goal with Ha : M s a i ?j0, Hb : M s b ?j0 j |- _ =>
        eapply IHb; [eapply IHa; [exact Hi|exact Hin|exact Ha]|exact (M_bound _ _ _ Ha Hin)|exact Hb] end.
    - apply nodup_In. apply in_or_app. inversion H; subst.
      + left. eapply IHa; eassumption.
      + right. eapply IHb; eassumption.
    - apply star_MP in H. eapply sweep_complete with (i := i); [exact IHa|reflexivity|exact Hi|lia|exact Hin|exact H].
  Qed.

  Theorem ends_spec : forall r X j, (forall i, In i X -> i <= n) ->
    (In j (ends s r X) <-> exists i, In i X /\ M s r i j).
  Proof.
    intros r X j HX. split; [apply ends_sound|].
    intros [i [Hi HM]]. eapply ends_complete; [exact Hi|apply HX; exact Hi|exact HM].
  Qed.
End Sem.

(* re.search(r, s) is not None  <->  some s[i:j] is matched by r *)
Theorem re_search_spec : forall r s, re_search r s = true <-> exists i j, i <= length s /\ M s r i j.
Proof.
  intros r s. unfold re_search. rewrite nonempty_ex. split.
  - intros [j Hj]. apply ends_sound in Hj. destruct Hj as [i [Hi HM]]. apply in_seq in Hi.
    exists i, j. split; [lia|exact HM].
  - intros [i [j [Hi HM]]]. exists j. eapply ends_complete; [|exact Hi|exact HM]. apply in_seq. lia.
Qed.

(* re.match(r, s) is not None  <->  some prefix s[0:j] is matched by r *)
Theorem re_match_spec : forall r s, re_match r s = true <-> exists j, M s r 0 j.
Proof.
  intros r s. unfold re_match. rewrite nonempty_ex. split.
  - intros [j Hj]. apply ends_sound in Hj. destruct Hj as [i [[<-|[]] HM]]. exists j. exact HM.
  - intros [j HM]. exists j. eapply ends_complete; [left; reflexivity|lia|exact HM].
Qed.

(* re.fullmatch(r, s) is not None  <->  r matches the whole subject *)
Theorem re_fullmatch_spec : forall r s, re_fullmatch r s = true <-> M s r 0 (length s).
Proof.
  intros r s. unfold re_fullmatch. rewrite existsb_exists. split.
  - intros [j [Hj E]]. apply Nat.eqb_eq in E. subst j. apply ends_sound in Hj.
    destruct Hj as [i [[<-|[]] HM]]. exact HM.
  - intros HM. exists (length s). split; [|apply Nat.eqb_refl].
    eapply ends_complete; [left; reflexivity|lia|exact HM].
Qed.

(* ---------- literals: the expression of a metacharacter-free pattern is substring search *)
Lemma starts_with_nil_l : forall s, starts_with [] s = true.
Proof. destruct s; reflexivity. Qed.

Lemma skipn_cons_nth : forall (s : str) i c r, skipn i s = c :: r -> nth_error s i = Some c /\ skipn (S i) s = r.
Proof.
  intros s i. revert s. induction i as [|i IH]; intros s c r H.
  - cbn [skipn] in H. subst s. split; reflexivity.
  - destruct s as [|x s']; [cbn in H; discriminate|]. cbn [skipn] in H. apply IH in H.
    cbn [nth_error]. exact H.
Qed.

Lemma nth_skipn_cons : forall (s : str) i c, nth_error s i = Some c -> exists r, skipn i s = c :: r.
Proof.
  intros s i. revert s. induction i as [|i IH]; intros s c H.
  - destruct s as [|x s']; [discriminate|]. cbn in H. inversion H; subst. exists s'. reflexivity.
  - destruct s as [|x s']; [discriminate|]. cbn [nth_error] in H. apply IH in H. exact H.
Qed.

Lemma M_chr : forall s c i j, M s (re_chr c) i j <-> j = S i /\ nth_error s i = Some c.
Proof.
  intros s c i j. unfold re_chr. split.
  - intros H. inversion H as [|c0 i0 x En Ec| | | | | | |]; subst. split; [reflexivity|].
    cbn [cmatch in_ranges existsb fst snd xorb] in Ec. rewrite orb_false_r in Ec.
    destruct ((c <=? x)%N && (x <=? c)%N) eqn:Ec'; [clear Ec; rename Ec' into Ec|discriminate].
    apply andb_true_iff in Ec. destruct Ec as [E1 E2]. apply N.leb_le in E1. apply N.leb_le in E2.
    assert (x = c) by lia. subst x. exact En.
  - intros [-> En]. econstructor; [exact En|].
    cbn [cmatch in_ranges existsb fst snd xorb]. rewrite N.leb_refl. reflexivity.
Qed.

Lemma starts_with_skipn_lit : forall s p i j,
  M s (re_lit p) i j <-> j = i + length p /\ starts_with p (skipn i s) = true.
Proof.
  intros s p. induction p as [|c p IH]; intros i j; cbn [re_lit length].
  - split.
    + intros H. inversion H; subst. split; [lia|apply starts_with_nil_l].
    + intros [-> _]. replace (i + 0) with i by lia. constructor.
  - split.
    + intros H. inversion H as [| | | |a b i0 j0 k0 Hc Hr| | | |]; subst.
      apply M_chr in Hc. destruct Hc as [-> En]. apply IH in Hr. destruct Hr as [-> Hs].
      split; [lia|]. apply nth_skipn_cons in En. destruct En as [r Er]. rewrite Er.
      cbn [starts_with]. rewrite N.eqb_refl. cbn [andb].
      apply skipn_cons_nth in Er. destruct Er as [_ Er]. rewrite Er in Hs. exact Hs.
    + intros [-> Hs].
      destruct (skipn i s) as [|x r] eqn:Esk; [cbn in Hs; discriminate|].
      cbn [starts_with] in Hs. apply andb_true_iff in Hs. destruct Hs as [Ex Hr]. apply N.eqb_eq in Ex. subst x.
      apply skipn_cons_nth in Esk. destruct Esk as [En Esk].
      eapply MSeq with (j := S i).
      * apply M_chr. split; [reflexivity|exact En].
      * apply IH. split; [lia|]. rewrite Esk. exact Hr.
Qed.

Lemma contains_skipn : forall p s, contains p s = true <-> exists i, i <= length s /\ starts_with p (skipn i s) = true.
Proof.
  intros p s. induction s as [|c s IH].
  - cbn [contains]. rewrite orb_false_r. split.
    + intros H. exists 0. split; [cbn; lia|exact H].
    + intros [i [Hi H]]. destruct i; exact H.
  - cbn [contains]. rewrite orb_true_iff, IH. split.
    + intros [H|[i [Hi H]]]; [exists 0; split; [lia|exact H]|exists (S i); split; [cbn; lia|exact H]].
    + intros [i [Hi H]]. destruct i as [|i]; [left; exact H|right; exists i; split; [cbn in Hi; lia|exact H]].
Qed.

Lemma starts_with_needs : forall p s, p <> [] -> starts_with p s = true -> s <> [].
Proof. intros p s Hp H. destruct p; [congruence|]. destruct s; [cbn in H; discriminate|congruence]. Qed.

(* the regular expression of a literal is substring search: the earlier, literal-only model is an instance *)
Theorem re_search_lit : forall p s, re_search (re_lit p) s = contains p s.
Proof.
  intros p s. apply eq_true_iff_eq. rewrite re_search_spec, contains_skipn. split.
  - intros [i [j [Hi HM]]]. apply starts_with_skipn_lit in HM. destruct HM as [_ Hs]. exists i. tauto.
  - intros [i [Hi Hs]]. exists i, (i + length p). split; [exact Hi|]. apply starts_with_skipn_lit.
    split; [reflexivity|exact Hs].
Qed.

Theorem re_search_anchored_lit : forall p s, re_search (RSeq RBol (re_lit p)) s = starts_with p s.
Proof.
  intros p s. apply eq_true_iff_eq. rewrite re_search_spec. split.
  - intros [i [j [Hi HM]]]. inversion HM; subst.
    match goal with Hb : M s RBol i _ |- _ => inversion Hb; subst end.
    match goal with Hl : M s (re_lit p) 0 j |- _ => apply starts_with_skipn_lit in Hl; destruct Hl as [_ Hs] end.
    exact Hs.
  - intros Hs. exists 0, (0 + length p). split; [lia|]. eapply MSeq; [constructor|].
    apply starts_with_skipn_lit. split; [reflexivity|exact Hs].
Qed.

(* alternation is disjunction; concatenation with the empty expression changes nothing *)
Theorem re_search_alt : forall a b s, re_search (RAlt a b) s = re_search a s || re_search b s.
Proof.
  intros a b s. apply eq_true_iff_eq. rewrite orb_true_iff, !re_search_spec. split.
  - intros [i [j [Hi HM]]]. inversion HM; subst; [left|right]; exists i, j; tauto.
  - intros [[i [j [Hi HM]]]|[i [j [Hi HM]]]]; exists i, j; split; try exact Hi; [apply MAltL|apply MAltR]; exact HM.
Qed.

Theorem re_search_never : forall s, re_search re_never s = false.
Proof.
  intros s. apply not_true_is_false. rewrite re_search_spec. intros [i [j [_ HM]]]. inversion HM; subst.
  match goal with E : cmatch _ _ = true |- _ => cbn in E; discriminate end.
Qed.

(* the empty pattern (the Block default) is found in every subject *)
Theorem re_search_eps : forall s, re_search REps s = true.
Proof. intros s. apply re_search_spec. exists 0, 0. split; [lia|constructor]. Qed.

(* the derived quantifiers mean what they say *)
Theorem re_plus_spec : forall s a i k, M s (re_plus a) i k <-> exists j, M s a i j /\ M s (RStar a) j k.
Proof.
  intros s a i k. unfold re_plus. split.
  - intros H. inversion H; subst. eexists; split; eassumption.
  - intros [j [H1 H2]]. econstructor; eassumption.
Qed.

Theorem re_opt_spec : forall s a i k, M s (re_opt a) i k <-> M s a i k \/ k = i.
Proof.
  intros s a i k. unfold re_opt. split.
  - intros H. inversion H; subst; [left; assumption|].
    match goal with He : M s REps i k |- _ => inversion He; subst end. right. reflexivity.
  - intros [H| ->]; [apply MAltL; exact H|apply MAltR; constructor].
Qed.

(* ---------- counted repetition: k rounds of a *)
Inductive Mpow (s : str) (a : re) : nat -> nat -> nat -> Prop :=
| Mpow0 i : Mpow s a 0 i i
| MpowS k i j l : M s a i j -> Mpow s a k j l -> Mpow s a (S k) i l.

Lemma re_pow_spec : forall s a k i j, M s (re_pow a k) i j <-> Mpow s a k i j.
Proof.
  intros s a k. induction k as [|k IH]; intros i j; cbn [re_pow].
  - split; intros H; inversion H; subst; constructor.
  - split.
    + intros H. inversion H; subst. econstructor; [eassumption|]. apply IH. assumption.
    + intros H. inversion H; subst. econstructor; [eassumption|]. apply IH. assumption.
Qed.

Lemma Mpow_app : forall s a k1 k2 i x j, Mpow s a k1 i x -> Mpow s a k2 x j -> Mpow s a (k1 + k2) i j.
Proof.
  intros s a k1 k2 i x j H1. revert k2 j. induction H1 as [i|k i y x Hm Hp IH]; intros k2 j H2; cbn [Nat.add].
  - exact H2.
  - econstructor; [exact Hm|]. apply IH. exact H2.
Qed.

Lemma Mpow_split : forall s a k1 k2 i j, Mpow s a (k1 + k2) i j -> exists x, Mpow s a k1 i x /\ Mpow s a k2 x j.
Proof.
  intros s a k1. induction k1 as [|k1 IH]; intros k2 i j H; cbn [Nat.add] in H.
  - exists i. split; [constructor|exact H].
  - inversion H; subst. match goal with Hp : Mpow s a (k1 + k2) _ j |- _ => apply IH in Hp; destruct Hp as [x [Hx1 Hx2]] end.
    exists x. split; [econstructor; eassumption|exact Hx2].
Qed.

Lemma re_upto_spec : forall s a d i j, M s (re_upto a d) i j <-> exists k, k <= d /\ Mpow s a k i j.
Proof.
  intros s a d. induction d as [|d IH]; intros i j; cbn [re_upto].
  - split.
    + intros H. inversion H; subst. exists 0. split; [lia|constructor].
    + intros [k [Hk H]]. assert (k = 0) by lia. subst k. inversion H; subst. constructor.
  - rewrite re_opt_spec. split.
    + intros [H| ->].
      * inversion H; subst. match goal with Hu : M s (re_upto a d) _ j |- _ => apply IH in Hu; destruct Hu as [k [Hk Hp]] end.
        exists (S k). split; [lia|]. econstructor; eassumption.
      * exists 0. split; [lia|constructor].
    + intros [k [Hk H]]. destruct k as [|k].
      * inversion H; subst. right. reflexivity.
      * inversion H; subst. left. econstructor; [eassumption|]. apply IH. exists k. split; [lia|assumption].
Qed.

(* a{m,m+d}: between m and m+d rounds *)
Theorem re_rep_spec : forall s a m d i j, M s (re_rep a m d) i j <-> exists k, m <= k <= m + d /\ Mpow s a k i j.
Proof.
  intros s a m d i j. unfold re_rep. split.
  - intros H. inversion H; subst.
    match goal with H1 : M s (re_pow a m) i ?x, H2 : M s (re_upto a d) ?x j |- _ =>
      apply re_pow_spec in H1; apply re_upto_spec in H2; destruct H2 as [k [Hk Hp]] end.
    exists (m + k). split; [lia|]. eapply Mpow_app; eassumption.
  - intros [k [Hk H]]. replace k with (m + (k - m)) in H by lia. apply Mpow_split in H. destruct H as [x [H1 H2]].
    econstructor; [apply re_pow_spec; exact H1|]. apply re_upto_spec. exists (k - m). split; [lia|exact H2].
Qed.

(* a*: any number of rounds *)
Theorem re_star_spec : forall s a i j, M s (RStar a) i j <-> exists k, Mpow s a k i j.
Proof.
  intros s a i j. split.
  - intros H. remember (RStar a) as r eqn:Er. revert a Er. induction H; intros a' Er; inversion Er; subst.
    + exists 0. constructor.
    + destruct (IHM2 a' eq_refl) as [n0 Hn0]. exists (S n0). econstructor; eassumption.
  - intros [k H]. induction H; [constructor|econstructor; eassumption].
Qed.

From Coq Require Import String.
Example re_example :
  let r := RSeq RBol (RSeq (RStar (RChr (CSpace false false))) (RSeq (re_lit (s2l "DADOS"%string)) (re_plus (RChr (CDigit false false))))) in
  re_search r (s2l "  DADOS42 x"%string) = true /\ re_search r (s2l "x DADOS42"%string) = false /\ re_search r (s2l "DADOS"%string) = false.
Proof. vm_compute. repeat split. Qed.
