(* Delimited lines: the composed write -> read round trip (C11), identifier as first token (C10). *)
From Coq Require Import ZArith NArith List Bool Arith Lia.
From Coq Require Import Floats.SpecFloat.
From Cfi Require Import Glue.Sx Py.PyStr Py.PyNum Py.PyBits Py.PyDate Model.Field Model.Line Model.Reader.
From Cfi Require Import Proofs.FieldProofs Proofs.NumText Proofs.DateProofs Proofs.LineProofs.
Import ListNotations.

(* the token written for a field: its rendering at column 0, blank-trimmed *)
Definition token_of (f : field) (v : value) : option str :=
  option_map (fun r => strip is_space (splice (rebase f) r [])) (render (rebase f) v).

(* reading a token with a field re-based at column 0 *)
Definition read_token (f : field) (t : str) : value := field_read (rebase f) t.

(* ===================================================================== *)
(* helpers: splice / span of a re-based field                             *)
(* ===================================================================== *)

(* writing a rendering into the empty line with a field at column 0 gives the rendering *)
Lemma splice_rebase_nil : forall f r, splice (rebase f) r [] = r.
Proof.
  intros f r. unfold splice, stop. cbn [rebase start size Nat.add firstn app].
  rewrite skipn_all2; [apply app_nil_r|].
  destruct (Nat.ltb (length (@nil N)) (size f)) eqn:E.
  - rewrite ljust_length. cbn [length]. lia.
  - cbn [length]. lia.
Qed.

Lemma token_of_render : forall f v r, render (rebase f) v = Some r ->
  token_of f v = Some (strip is_space r).
Proof.
  intros f v r Hr. unfold token_of. rewrite Hr. cbn [option_map].
  rewrite splice_rebase_nil. reflexivity.
Qed.

Lemma strip_length : forall s, length (strip is_space s) <= length s.
Proof.
  intros s. unfold strip, rstrip. rewrite rev_length.
  pose proof (lstrip_length is_space (rev (lstrip is_space s))) as H1.
  pose proof (lstrip_length is_space s) as H2.
  rewrite rev_length in H1. lia.
Qed.

(* a text no longer than the field is its own span at column 0 *)
Lemma span_rebase_short : forall f (t : str), length t <= size f -> span (rebase f) t = t.
Proof.
  intros f t Hlen. unfold span, slice, stop. cbn [rebase start size Nat.add skipn].
  rewrite Nat.sub_0_r. apply firstn_all2. exact Hlen.
Qed.

Lemma read_token_short : forall f t, length t <= size f -> read_token f t = interp (kind f) t.
Proof.
  intros f t Hlen. unfold read_token, field_read. rewrite span_rebase_short by exact Hlen.
  reflexivity.
Qed.

(* ===================================================================== *)
(* helpers: characters of number texts are not white space                *)
(* ===================================================================== *)

Definition tokc (c : N) : Prop := plain c \/ c = 44%N.

Lemma plain_not_space : forall c, plain c -> is_space c = false.
Proof.
  intros c Hp. apply plain_in in Hp. unfold plain_list in Hp. cbn [In] in Hp.
  repeat (destruct Hp as [Hp | Hp]; [rewrite <- Hp; vm_compute; reflexivity|]).
  destruct Hp.
Qed.

Lemma tokc_not_space : forall c, tokc c -> is_space c = false.
Proof.
  intros c [Hp | Hc]; [apply plain_not_space; exact Hp|].
  rewrite Hc. vm_compute. reflexivity.
Qed.

Lemma strip_pad_left : forall (P : N -> Prop) k s,
  (forall x, P x -> is_space x = false) -> Forall P s -> strip is_space (pad k ++ s) = s.
Proof.
  intros P k s HP Hs.
  assert (E : pad k ++ s = repeat SP k ++ s ++ repeat SP 0).
  { cbn [repeat]. rewrite app_nil_r. reflexivity. }
  rewrite E. apply (strip_pad_forall is_space P); [reflexivity | exact HP | exact Hs].
Qed.

Lemma str_of_Z_plain : forall z, Forall plain (str_of_Z z).
Proof.
  intros z. rewrite str_of_Z_shape.
  assert (Habs : (0 <= Z.abs z)%Z) by apply Z.abs_nonneg.
  destruct (dec_digits_spec (Z.abs z) Habs) as [_ Hdig _ _ _ _].
  apply Forall_app. split; [apply sign_text_plain | apply Forall_isd_plain; exact Hdig].
Qed.

(* the separator form of a plain text has digits, '-', '.' and ',' only *)
Lemma dialect_tokc : forall sep t, (sep = [DOT] \/ sep = [44%N]) -> Forall plain t ->
  Forall tokc (replace [DOT] sep t).
Proof.
  intros sep t [Hs | Hs] Hp; rewrite Hs, replace1_map.
  - rewrite map_subst1_same. apply Forall_impl with (2 := Hp). intros c Hc. left. exact Hc.
  - apply Forall_forall. intros c Hin. apply in_map_iff in Hin. destruct Hin as [x [Hx Hin]].
    rewrite Forall_forall in Hp. pose proof (Hp x Hin) as Hpx.
    unfold subst1 in Hx. destruct (N.eqb DOT x).
    + right. symmetry. exact Hx.
    + left. rewrite <- Hx. exact Hpx.
Qed.

(* ===================================================================== *)
(* tokens per kind                                                        *)
(* ===================================================================== *)

(* for a fitting value the token is the trimmed rendering *)
Theorem token_of_fits : forall f v r, render (rebase f) v = Some r -> length r = size f ->
  token_of f v = Some (strip is_space r).
Proof.
  intros f v r Hr _. apply token_of_render. exact Hr.
Qed.

Theorem read_token_int : forall f z, kind f = KInt -> fits (rebase f) (VInt z) = true ->
  forall t, token_of f (VInt z) = Some t -> read_token f t = VInt z.
Proof.
  intros f z Hk Hfit t Ht.
  destruct (fits_width (rebase f) (VInt z) Hfit) as [r [Hr Hlen]].
  rewrite (token_of_render f (VInt z) r Hr) in Ht. injection Ht as Ht.
  assert (Hk' : kind (rebase f) = KInt) by exact Hk.
  destruct (render_int (rebase f) z Hk') as [Hr' _].
  rewrite Hr in Hr'. injection Hr' as Hr'.
  assert (Hstrip : strip is_space r = str_of_Z z).
  { rewrite Hr'. apply (strip_pad_left plain); [exact plain_not_space | apply str_of_Z_plain]. }
  assert (Hle : length (str_of_Z z) <= size f).
  { change (size (rebase f)) with (size f) in Hlen. rewrite <- Hlen, Hr', app_length. lia. }
  rewrite <- Ht, Hstrip. rewrite read_token_short by exact Hle.
  rewrite Hk. cbn [interp].
  pose proof (int_roundtrip_padded 0 0 z) as Hrt.
  unfold pad in Hrt. cbn [repeat app] in Hrt. rewrite app_nil_r in Hrt.
  rewrite Hrt. reflexivity.
Qed.

Theorem read_token_lit : forall f s, kind f = KLit -> fits (rebase f) (VStr s) = true ->
  forall t, token_of f (VStr s) = Some t -> read_token f t = VStr (strip is_space s).
Proof.
  intros f s Hk Hfit t Ht.
  destruct (fits_width (rebase f) (VStr s) Hfit) as [r [Hr Hlen]].
  rewrite (token_of_render f (VStr s) r Hr) in Ht. injection Ht as Ht.
  assert (Hk' : kind (rebase f) = KLit) by exact Hk.
  rewrite (render_lit (rebase f) s Hk') in Hr. injection Hr as Hr.
  assert (Hstrip : strip is_space r = strip is_space s).
  { rewrite <- Hr. apply strip_pad. }
  assert (Hle : length (strip is_space s) <= size f).
  { change (size (rebase f)) with (size f) in Hlen.
    pose proof (strip_length s) as Hsl.
    rewrite <- Hlen, <- Hr, app_length. lia. }
  rewrite <- Ht, Hstrip. rewrite read_token_short by exact Hle.
  rewrite Hk. cbn [interp]. rewrite strip_idempotent. reflexivity.
Qed.

Theorem read_token_missing : forall f v, missing v = true ->
  match kind f with KFloat _ _ _ sep => sep = [DOT] \/ sep = [44%N] | KDate fmts => Forall (fun fm => fm <> []) fmts | _ => True end ->
  forall t, token_of f v = Some t -> read_token f t = match kind f with KLit => VStr [] | _ => VNone end.
Proof.
  intros f v Hm Hkind t Ht.
  rewrite (token_of_render f v _ (render_missing (rebase f) v Hm)) in Ht.
  rewrite strip_blank in Ht. injection Ht as Ht. subst t.
  rewrite read_token_short by (cbn [length]; apply Nat.le_0_l).
  destruct (kind f) as [| | dd sci up sep | fmts] eqn:Ek; cbn [interp].
  - reflexivity.
  - pose proof (int_of_str_pad 0) as H0. change (pad 0) with (@nil N) in H0.
    rewrite H0. reflexivity.
  - assert (Hrep : replace sep [DOT] [] = []).
    { destruct Hkind as [Hs | Hs]; rewrite Hs, replace1_map; reflexivity. }
    rewrite Hrep.
    pose proof (float_of_str_pad 0) as H0. change (pad 0) with (@nil N) in H0.
    rewrite H0. reflexivity.
  - change (strip is_space []) with (@nil N).
    rewrite (first_parse_nil fmts Hkind). reflexivity.
Qed.

Theorem read_token_float_fixed : forall f dd up sep s m e, kind f = KFloat dd false up sep -> (sep = [DOT] \/ sep = [44%N]) ->
  fits (rebase f) (VFloat (S754_finite s m e)) = true ->
  forall t, token_of f (VFloat (S754_finite s m e)) = Some t ->
  read_token f t = reread (rebase f) (VFloat (S754_finite s m e)).
Proof.
  intros f dd up sep s m e Hk Hsep Hfit t Ht.
  destruct (fits_width (rebase f) _ Hfit) as [r [Hr Hlen]].
  rewrite (token_of_render f _ r Hr) in Ht. injection Ht as Ht.
  assert (Hk' : kind (rebase f) = KFloat dd false up sep) by exact Hk.
  destruct (reread_float_fixed (rebase f) dd up sep s m e Hk' Hsep) as [d [_ [He Hrr]]].
  rewrite Hrr.
  pose proof (render_float (rebase f) dd false up sep (S754_finite s m e) Hk' eq_refl eq_refl) as Hr'.
  cbv zeta in Hr'. rewrite Hr in Hr'. injection Hr' as Hr'. change (size (rebase f)) with (size f) in He, Hr'. rewrite He in Hr'.
  assert (Hnn : (0 <= round_dec m e (Z.of_nat d))%Z) by apply round_dec_nonneg.
  pose proof (fixed_text_plain s (round_dec m e (Z.of_nat d)) d Hnn) as Hplain.
  remember (round_dec m e (Z.of_nat d)) as n eqn:En.
  remember (replace [DOT] sep (fixed_text s n d)) as body eqn:Eb.
  assert (Hbody : Forall tokc body) by (rewrite Eb; apply dialect_tokc; assumption).
  assert (Hstrip : strip is_space r = body).
  { rewrite Hr'. apply (strip_pad_left tokc); [exact tokc_not_space | exact Hbody]. }
  assert (Hle : length body <= size f).
  { change (size (rebase f)) with (size f) in Hlen. rewrite <- Hlen, Hr', app_length. lia. }
  rewrite <- Ht, Hstrip. rewrite read_token_short by exact Hle.
  rewrite Hk. cbn [interp].
  pose proof (dialect_roundtrip sep 0 (fixed_text s n d) Hsep (plain_notin_comma _ Hplain)) as Hd.
  change (pad 0) with (@nil N) in Hd. cbn [app] in Hd. rewrite <- Eb in Hd.
  rewrite Hd. rewrite (fixed_text_parse s n d Hnn). reflexivity.
Qed.

Theorem read_token_date : forall f fmt r d, kind f = KDate (fmt :: r) ->
  wf_fmt fmt -> dom_dt d -> valid_dt (trunc fmt d) = true -> strip is_space (strftime fmt d) = strftime fmt d ->
  fits (rebase f) (VDate d) = true ->
  forall t, token_of f (VDate d) = Some t -> read_token f t = VDate (trunc fmt d).
Proof.
  intros f fmt r d Hk Hwf Hd Hval Hstrip Hfit t Ht.
  destruct (fits_width (rebase f) (VDate d) Hfit) as [x [Hr Hlen]].
  rewrite (token_of_render f (VDate d) x Hr) in Ht. injection Ht as Ht.
  assert (Hk' : kind (rebase f) = KDate (fmt :: r)) by exact Hk.
  rewrite (render_date (rebase f) fmt r d Hk') in Hr. injection Hr as Hr.
  assert (Hsx : strip is_space x = strftime fmt d).
  { rewrite <- Hr, strip_pad. exact Hstrip. }
  assert (Hle : length (strftime fmt d) <= size f).
  { change (size (rebase f)) with (size f) in Hlen. rewrite <- Hlen, <- Hr, app_length. lia. }
  rewrite <- Ht, Hsx. rewrite read_token_short by exact Hle.
  rewrite Hk. cbn [interp first_parse]. rewrite Hstrip.
  rewrite (strptime_strftime fmt d Hwf Hd Hval). reflexivity.
Qed.

(* ===================================================================== *)
(* splitting a written line                                               *)
(* ===================================================================== *)

Lemma is_space_NL : is_space NL = true.
Proof. vm_compute. reflexivity. Qed.

Lemma not_space_not_NL : forall c, is_space c = false -> c <> NL.
Proof. intros c Hc E. rewrite E, is_space_NL in Hc. discriminate Hc. Qed.

(* the trailing newline is trimmed away *)
Lemma strip_app_NL : forall t, strip is_space (t ++ [NL]) = strip is_space t.
Proof.
  intros t. unfold strip. rewrite lstrip_app.
  destruct (lstrip is_space t) as [|x r] eqn:Hl.
  - cbn [lstrip]. rewrite is_space_NL. reflexivity.
  - unfold rstrip. rewrite rev_app_distr. cbn [rev app lstrip]. rewrite is_space_NL. reflexivity.
Qed.

Lemma split_join_NL_aux : forall c toks t cur, c <> NL -> Forall (fun t => ~ In c t) (t :: toks) ->
  map (strip is_space) (split_aux [c] cur (join [c] (t :: toks) ++ [NL]) 0) =
    strip is_space (rev cur ++ t) :: map (strip is_space) toks.
Proof.
  intros c toks. induction toks as [|u toks IH]; intros t cur Hc Hall.
  - inversion Hall as [|t0 l0 Ht _ Heq]. subst t0 l0.
    cbn [join]. rewrite split1_notin by exact Ht.
    rewrite split1_cons.
    assert (E : N.eqb c NL = false) by (apply N.eqb_neq; exact Hc).
    rewrite E. cbn [split_aux map rev].
    rewrite rev_app_distr, rev_involutive, strip_app_NL. reflexivity.
  - inversion Hall as [|t0 l0 Ht Hall' Heq]. subst t0 l0.
    rewrite join_cons_ne by discriminate.
    rewrite <- !app_assoc. rewrite split1_notin by exact Ht.
    cbn [app]. rewrite split1_cons. rewrite N.eqb_refl.
    cbn [map]. rewrite (IH u [] Hc Hall'). cbn [rev app].
    rewrite rev_app_distr, rev_involutive. reflexivity.
Qed.

(* the variant of [split_join_char] for a written line: the tokens come back once trimmed *)
Lemma split_join_NL : forall c toks, c <> NL -> toks <> [] -> Forall (fun t => ~ In c t) toks ->
  map (strip is_space) (split [c] (join [c] toks ++ [NL])) = map (strip is_space) toks.
Proof.
  intros c toks Hc Hne Hall. destruct toks as [|t toks]; [congruence|].
  unfold split. rewrite (split_join_NL_aux c toks t [] Hc Hall). reflexivity.
Qed.

Lemma map_strip_fix : forall toks, Forall (fun t => strip is_space t = t) toks ->
  map (strip is_space) toks = toks.
Proof.
  intros toks H. induction H as [|t toks Ht Hall IH]; [reflexivity|].
  cbn [map]. rewrite Ht, IH. reflexivity.
Qed.

(* ===================================================================== *)
(* the composed round trip                                                *)
(* ===================================================================== *)

Definition dflt_field : field := {| kind := KLit; size := 0; start := 0 |}.

Lemma read_map_aux : forall (st' : lstate) (toks : list str) (fs : list field),
  Forall2 (fun fv t => token_of (fst fv) (snd fv) = Some t) st' toks ->
  map rebase fs = fields_of st' ->
  map (fun i => match nth_error toks i with
                | Some t => field_read (rebase (nth i fs dflt_field)) t
                | None => VNone end) (seq 0 (length st')) =
  map (fun fv => match token_of (fst fv) (snd fv) with Some t => read_token (fst fv) t | None => VNone end) st'.
Proof.
  intros st' toks fs HF. revert fs.
  induction HF as [|fv t st1 toks1 Hhd Htl IH]; intros fs Hfs.
  - reflexivity.
  - destruct fs as [|f0 fs]; [discriminate Hfs|].
    unfold fields_of in Hfs. cbn [map] in Hfs. injection Hfs as Hf0 Hfs.
    cbn [length seq map]. f_equal.
    + cbn [nth_error nth]. rewrite Hhd. unfold read_token. rewrite <- Hf0. reflexivity.
    + rewrite <- seq_shift, map_map. rewrite <- (IH fs Hfs).
      apply map_ext. intros i. reflexivity.
Qed.

Lemma shape_tokens : forall (st' : lstate) (toks : list str),
  Forall2 (fun fv t => exists r, render (rebase (fst fv)) (snd fv) = Some r /\
                                 t = strip is_space (splice (rebase (fst fv)) r [])) st' toks ->
  Forall2 (fun fv t => token_of (fst fv) (snd fv) = Some t) st' toks /\
  Forall (fun t => strip is_space t = t) toks.
Proof.
  intros st' toks HF. induction HF as [|fv t st1 toks1 Hhd Htl IH].
  - split; constructor.
  - destruct IH as [IH1 IH2]. destruct Hhd as [r [Hr Ht]].
    split; constructor; try assumption.
    + unfold token_of. rewrite Hr. cbn [option_map]. rewrite Ht. reflexivity.
    + rewrite Ht. apply strip_idempotent.
Qed.

Lemma tokens_notin : forall c (st' : lstate) (toks : list str),
  Forall2 (fun fv t => token_of (fst fv) (snd fv) = Some t) st' toks ->
  Forall (fun fv => exists t, token_of (fst fv) (snd fv) = Some t /\ ~ In c t) st' ->
  Forall (fun t => ~ In c t) toks.
Proof.
  intros c st' toks HF. induction HF as [|fv t st1 toks1 Hhd Htl IH]; intros Hall.
  - constructor.
  - inversion Hall as [|fv0 l0 Hfv Hall' Heq]. subst fv0 l0.
    constructor; [|apply IH; exact Hall'].
    destruct Hfv as [t' [Ht' Hn]]. rewrite Hhd in Ht'. injection Ht' as Ht'. rewrite Ht'. exact Hn.
Qed.

(* the composed round trip for a one-character, non-blank delimiter that occurs in no token: reading the written
   line returns, field by field, the reading of its own token -- whatever the reading line's slots held *)
Theorem delim_roundtrip : forall st c vs st' text st2,
  write_delim st [c] vs = (st', Some text) -> length vs = length st ->
  is_space c = false ->
  Forall (fun fv => exists t, token_of (fst fv) (snd fv) = Some t /\ ~ In c t) st' ->
  fields_of st2 = fields_of st ->
  values_of (read_delim st2 [c] text) =
    map (fun fv => match token_of (fst fv) (snd fv) with Some t => read_token (fst fv) t | None => VNone end) st'.
Proof.
  intros st c vs st' text st2 Hw _ Hc Htok Hfs2.
  destruct (write_delim_shape st [c] vs st' text Hw) as [toks [Htext HF2]].
  assert (Hfs : fields_of st' = map rebase (fields_of st)).
  { unfold write_delim, write_delim_gen in Hw. injection Hw as Hst _.
    rewrite <- Hst, set_values_fields, rebase_all_fields. reflexivity. }
  destruct (shape_tokens st' toks HF2) as [HT Hfix].
  pose proof (tokens_notin c st' toks HT Htok) as Hnotin.
  assert (Hlen2 : length st2 = length st').
  { rewrite <- (fields_of_length st2), <- (fields_of_length st'), Hfs, Hfs2, map_length. reflexivity. }
  pose proof (read_delim_spec st2 [c] text) as Hspec. cbv zeta in Hspec. rewrite Hspec. clear Hspec.
  rewrite Hlen2.
  destruct toks as [|t0 toks0] eqn:Etoks.
  - inversion HF2 as [Hst' Htk|]. reflexivity.
  - assert (Hne : toks <> []) by (rewrite Etoks; discriminate).
    rewrite <- Etoks in *.
    rewrite Htext, (split_join_NL c toks (not_space_not_NL c Hc) Hne Hnotin), (map_strip_fix toks Hfix).
    rewrite Hfs2. apply (read_map_aux st' toks (fields_of st) HT). symmetry. exact Hfs.
Qed.

(* a line with fewer tokens (a prefix of the written tokens) yields the readings of those tokens and missing values
   for the absent fields; surplus tokens are ignored *)
Theorem delim_short_line : forall st c toks,
  is_space c = false -> toks <> [] -> Forall (fun t => ~ In c t /\ strip is_space t = t) toks ->
  values_of (read_delim st [c] (join [c] toks ++ [NL])) =
    map (fun i => match nth_error toks i with
                  | Some t => read_token (nth i (fields_of st) {| kind := KLit; size := 0; start := 0 |}) t
                  | None => VNone end) (seq 0 (length st)).
Proof.
  intros st c toks Hc Hne Hall.
  assert (Hnotin : Forall (fun t => ~ In c t) toks).
  { apply Forall_impl with (2 := Hall). intros t [H _]. exact H. }
  assert (Hfix : Forall (fun t => strip is_space t = t) toks).
  { apply Forall_impl with (2 := Hall). intros t [_ H]. exact H. }
  pose proof (read_delim_spec st [c] (join [c] toks ++ [NL])) as Hspec. cbv zeta in Hspec.
  rewrite Hspec. clear Hspec.
  rewrite (split_join_NL c toks (not_space_not_NL c Hc) Hne Hnotin), (map_strip_fix toks Hfix).
  reflexivity.
Qed.

(* ===================================================================== *)
(* C10, delimited registers                                               *)
(* ===================================================================== *)

Theorem reg_write_delim_ident_first : forall rs i d c text, r_delim (nth_reg rs i) = Some [c] ->
  all_none d = false -> write_elem Text rs (ETyped i d) = Some text ->
  length (r_ident (nth_reg rs i)) <= r_digits (nth_reg rs i) ->
  strip is_space (r_ident (nth_reg rs i)) = r_ident (nth_reg rs i) -> ~ In c (r_ident (nth_reg rs i)) ->
  exists rest, text = r_ident (nth_reg rs i) ++ rest /\ (rest = [NL] \/ exists r', rest = c :: r').
Proof.
  intros rs i d c text Hd Hnn Hw _ Hstrip _.
  unfold write_elem in Hw. rewrite Hnn in Hw. cbv zeta in Hw.
  remember (nth_reg rs i) as r eqn:Er.
  unfold line_write, line_write_gen in Hw. rewrite Hd in Hw.
  unfold write_delim_gen in Hw. cbn [snd] in Hw.
  cbn [composite mk_state map rebase_all fst snd set_values render_tokens] in Hw.
  unfold field_write_gen in Hw.
  change (render_gen true) with render in Hw.
  rewrite (render_lit (rebase (ident_field r)) (r_ident r) eq_refl) in Hw.
  cbn [option_map] in Hw. rewrite splice_rebase_nil, strip_pad, Hstrip in Hw.
  match type of Hw with context [render_tokens true ?x] => destruct (render_tokens true x) as [ts|] end;
    [|discriminate Hw].
  cbn [option_map] in Hw. injection Hw as Hw.
  destruct ts as [|u ts].
  - exists [NL]. split; [symmetry; exact Hw | left; reflexivity].
  - exists (c :: join [c] (u :: ts) ++ [NL]). split.
    + rewrite <- Hw, <- app_assoc. reflexivity.
    + right. exists (join [c] (u :: ts) ++ [NL]). reflexivity.
Qed.

(* ===================================================================== *)
Print Assumptions token_of_fits.
Print Assumptions read_token_int.
Print Assumptions read_token_lit.
Print Assumptions read_token_missing.
Print Assumptions read_token_float_fixed.
Print Assumptions read_token_date.
Print Assumptions delim_roundtrip.
Print Assumptions delim_short_line.
Print Assumptions reg_write_delim_ident_first.
