(* Proofs about the reading loops: C04 (register files), C12 (block files), C13 (section files), C18 (termination). *)
From Coq Require Import ZArith NArith List Bool Arith Lia.
From Coq Require Import Floats.SpecFloat.
From Cfi Require Import Glue.Sx Py.PyStr Py.PyNum Py.PyBits Py.PyDate Model.Field Model.Line Model.Reader.
Import ListNotations.

(* ===================================================================== *)
(* generic list helpers                                                   *)
(* ===================================================================== *)

Lemma rp_rev_nil : forall (A : Type) (l : list A), rev l = [] -> l = [].
Proof.
  intros A l H. destruct l as [|a l]; [reflexivity|].
  cbn [rev] in H. apply app_eq_nil in H. destruct H as [_ H]. discriminate H.
Qed.

Lemma rp_firstn_app_exact : forall (A : Type) (a b : list A), firstn (length a) (a ++ b) = a.
Proof.
  intros A a b. induction a as [|x a IHa]; cbn [length firstn app].
  - reflexivity.
  - rewrite IHa. reflexivity.
Qed.

Lemma rp_skipn_app_exact : forall (A : Type) (a b : list A), skipn (length a) (a ++ b) = b.
Proof.
  intros A a b. induction a as [|x a IHa]; cbn [length skipn app].
  - reflexivity.
  - exact IHa.
Qed.

Lemma rp_firstn_nonempty : forall (A : Type) n (s : list A), 0 < n -> s <> [] -> firstn n s <> [].
Proof.
  intros A n s Hn Hs. destruct n as [|n]; [lia|].
  destruct s as [|a s]; [congruence|]. cbn [firstn]. discriminate.
Qed.

(* ===================================================================== *)
(* lines                                                                  *)
(* ===================================================================== *)

Lemma readline_aux_split : forall s cur l rest,
  readline_aux cur s = (l, rest) -> rev cur ++ s = l ++ rest.
Proof.
  induction s as [|c r IH]; intros cur l rest H; cbn [readline_aux] in H.
  - inversion H; subst. reflexivity.
  - destruct (c =? NL)%N eqn:E.
    + inversion H; subst. cbn [rev]. rewrite <- app_assoc. reflexivity.
    + apply IH in H. cbn [rev] in H. rewrite <- app_assoc in H. exact H.
Qed.

Theorem readline_split : forall s l rest, readline s = (l, rest) -> s = l ++ rest.
Proof.
  intros s l rest H. unfold readline in H. apply readline_aux_split in H. exact H.
Qed.

Lemma readline_aux_nonempty : forall s cur,
  cur <> [] \/ s <> [] -> fst (readline_aux cur s) <> [].
Proof.
  induction s as [|c r IH]; intros cur H; cbn [readline_aux].
  - cbn [fst]. destruct H as [H|H]; [|congruence].
    intro Hr. apply rp_rev_nil in Hr. congruence.
  - destruct (c =? NL)%N eqn:E.
    + cbn [fst rev]. intro Hr. apply app_eq_nil in Hr. destruct Hr as [_ Hr]. discriminate Hr.
    + apply IH. left. discriminate.
Qed.

Theorem readline_progress : forall s, s <> [] -> fst (readline s) <> [].
Proof.
  intros s H. unfold readline. apply readline_aux_nonempty. right. exact H.
Qed.

Theorem readline_nil : readline [] = ([], []).
Proof. reflexivity. Qed.

Lemma readline_aux_shape : forall s cur l rest, ~ In NL cur -> readline_aux cur s = (l, rest) ->
  (exists b, l = b ++ [NL] /\ ~ In NL b) \/ (~ In NL l /\ rest = []).
Proof.
  induction s as [|c r IH]; intros cur l rest Hc H; cbn [readline_aux] in H.
  - inversion H; subst. right. split; [|reflexivity].
    intro Hi. apply in_rev in Hi. exact (Hc Hi).
  - destruct (c =? NL)%N eqn:E.
    + apply N.eqb_eq in E. subst c. inversion H; subst. left.
      exists (rev cur). split; [reflexivity|].
      intro Hi. apply in_rev in Hi. exact (Hc Hi).
    + apply N.eqb_neq in E. apply (IH (c :: cur) l rest); [|exact H].
      intro Hi. destruct Hi as [Hi|Hi]; [congruence|exact (Hc Hi)].
Qed.

Theorem readline_shape : forall s l rest, readline s = (l, rest) ->
  (exists b, l = b ++ [NL] /\ ~ In NL b) \/ (~ In NL l /\ rest = []).
Proof.
  intros s l rest H. unfold readline in H.
  apply (readline_aux_shape s [] l rest); [|exact H].
  intro Hi. destruct Hi.
Qed.

Lemma lines_aux_readline : forall s cur, cur <> [] \/ s <> [] ->
  lines_aux cur s = fst (readline_aux cur s) :: lines_aux [] (snd (readline_aux cur s)).
Proof.
  induction s as [|c r IH]; intros cur H; cbn [lines_aux readline_aux].
  - destruct H as [H|H]; [|congruence].
    destruct cur as [|x cur]; [congruence|]. reflexivity.
  - destruct (c =? NL)%N eqn:E.
    + reflexivity.
    + apply IH. left. discriminate.
Qed.

Theorem split_lines_readline : forall s, s <> [] ->
  split_lines s = fst (readline s) :: split_lines (snd (readline s)).
Proof.
  intros s H. unfold split_lines, readline. apply lines_aux_readline. right. exact H.
Qed.

Lemma lines_aux_concat : forall s cur, concat (lines_aux cur s) = rev cur ++ s.
Proof.
  induction s as [|c r IH]; intros cur; cbn [lines_aux].
  - destruct cur as [|x cur].
    + reflexivity.
    + cbn [concat]. reflexivity.
  - destruct (c =? NL)%N eqn:E.
    + cbn [concat]. rewrite IH. cbn [rev app]. rewrite <- app_assoc. reflexivity.
    + rewrite IH. cbn [rev]. rewrite <- app_assoc. reflexivity.
Qed.

Theorem split_lines_concat : forall s, concat (split_lines s) = s.
Proof.
  intros s. unfold split_lines. rewrite lines_aux_concat. reflexivity.
Qed.

Lemma readline_fst_nil : forall s, fst (readline s) = [] -> s = [].
Proof.
  intros s H. destruct s as [|a s]; [reflexivity|].
  exfalso. apply (readline_progress (a :: s)); [discriminate|exact H].
Qed.

Lemma readline_length : forall s l rest, readline s = (l, rest) -> length rest <= length s.
Proof.
  intros s l rest H. apply readline_split in H. subst s. rewrite app_length. lia.
Qed.

(* ===================================================================== *)
(* the generic loop                                                       *)
(* ===================================================================== *)

Section LoopFacts.
  Variable T : Type.
  Variables (peek : str -> str) (dispatch : str -> option T)
            (read_typed : T -> str -> str * str) (read_default : str -> str * str).

  Definition reader (t : option T) (s : str) : str * str :=
    match t with Some ty => read_typed ty s | None => read_default s end.

  (* what the loop computes, as a relation (the specification) *)
  Inductive loop_rel : str -> list (option T * str) -> Prop :=
  | loop_stop : forall s, peek s = [] -> loop_rel s []
  | loop_step : forall s c rest es, peek s <> [] ->
      reader (dispatch (peek s)) s = (c, rest) -> loop_rel rest es ->
      loop_rel s ((dispatch (peek s), c) :: es).

  (* unfolding equations of the loop *)
  Lemma read_loop_S_nil : forall f s, peek s = [] ->
    read_loop peek dispatch read_typed read_default (S f) s = Some [].
  Proof.
    intros f s H. cbn [read_loop]. rewrite H. reflexivity.
  Qed.

  Lemma read_loop_S_cons : forall f s, peek s <> [] ->
    read_loop peek dispatch read_typed read_default (S f) s =
    let (c, rest) := reader (dispatch (peek s)) s in
    option_map (cons (dispatch (peek s), c)) (read_loop peek dispatch read_typed read_default f rest).
  Proof.
    intros f s H. cbn [read_loop]. destruct (peek s) as [|n l]; [congruence|]. reflexivity.
  Qed.

  Lemma peek_dec : forall s, peek s = [] \/ peek s <> [].
  Proof.
    intros s. destruct (peek s) as [|n l]; [left; reflexivity|right; discriminate].
  Qed.

  Theorem read_loop_rel : forall fuel s es,
    read_loop peek dispatch read_typed read_default fuel s = Some es -> loop_rel s es.
  Proof.
    induction fuel as [|f IH]; intros s es H.
    - cbn [read_loop] in H. discriminate H.
    - destruct (peek_dec s) as [Hp|Hp].
      + rewrite (read_loop_S_nil f s Hp) in H. inversion H; subst. apply loop_stop. exact Hp.
      + rewrite (read_loop_S_cons f s Hp) in H.
        destruct (reader (dispatch (peek s)) s) as [c rest] eqn:Er.
        destruct (read_loop peek dispatch read_typed read_default f rest) as [es'|] eqn:El;
          cbn [option_map] in H; [|discriminate H].
        inversion H; subst. apply (loop_step s c rest es' Hp Er). apply (IH rest es' El).
  Qed.

  (* the elements' types are values of dispatch *)
  Lemma loop_rel_fst : forall s es, loop_rel s es -> Forall (fun e => exists p, fst e = dispatch p) es.
  Proof.
    intros s es H. induction H as [s Hp | s c rest es Hp Hr Hl IH].
    - apply Forall_nil.
    - apply Forall_cons; [|exact IH]. exists (peek s). reflexivity.
  Qed.

  (* every reader returns a split of its input *)
  Hypothesis split_ok : forall t s c rest, reader t s = (c, rest) -> s = c ++ rest.
  (* the loop stops only at the end of the input *)
  Hypothesis peek_nil : forall s, peek s = [] -> s = [].

  (* nothing is lost, duplicated or reordered *)
  Theorem loop_accounting : forall s es, loop_rel s es -> concat (map snd es) = s.
  Proof.
    intros s es H. induction H as [s Hp | s c rest es Hp Hr Hl IH].
    - apply peek_nil in Hp. subst s. reflexivity.
    - cbn [map concat snd]. rewrite IH. apply split_ok in Hr. symmetry. exact Hr.
  Qed.

  (* an element was read only from a non-empty input *)
  Lemma loop_rel_nonempty : forall s es, loop_rel s es -> es <> [] -> s <> [].
  Proof.
    intros s es H. induction H as [s Hp | s c rest es Hp Hr Hl IH]; intros Hne Hs.
    - congruence.
    - subst s. apply split_ok in Hr. symmetry in Hr. apply app_eq_nil in Hr.
      destruct Hr as [Hc Hrest]. subst rest.
      destruct es as [|e es].
      + inversion Hl as [s0 Hp0 | ]; subst. exact (Hp Hp0).
      + apply IH; [discriminate|reflexivity].
  Qed.

  (* every reader consumes at least one character of a non-empty input *)
  Hypothesis progress : forall t s c rest, s <> [] -> reader t s = (c, rest) -> c <> [].

  (* EXTRA HYPOTHESIS (needed by loop_total only): at the end of the input there is nothing to peek at.
     Without it loop_total is false: peek := fun _ => [0] satisfies peek_nil vacuously and the loop
     spins on the empty input. *)
  Hypothesis peek_at_end : peek [] = [].

  Theorem loop_total : forall fuel s, length s < fuel ->
    exists es, read_loop peek dispatch read_typed read_default fuel s = Some es.
  Proof.
    induction fuel as [|f IH]; intros s Hlt.
    - lia.
    - destruct (peek_dec s) as [Hp|Hp].
      + exists []. apply read_loop_S_nil. exact Hp.
      + assert (Hs : s <> []). { intro Hs. subst s. exact (Hp peek_at_end). }
        destruct (reader (dispatch (peek s)) s) as [c rest] eqn:Er.
        pose proof (progress _ _ _ _ Hs Er) as Hc.
        pose proof (split_ok _ _ _ _ Er) as Hsp.
        assert (Hl : length rest < f).
        { subst s. rewrite app_length in Hlt. destruct c as [|x c]; [congruence|].
          cbn [length] in Hlt. lia. }
        destruct (IH rest Hl) as [es' Hes'].
        exists ((dispatch (peek s), c) :: es').
        rewrite (read_loop_S_cons f s Hp). rewrite Er. rewrite Hes'. reflexivity.
  Qed.

  Theorem loop_count : forall s es, loop_rel s es -> length es <= length s.
  Proof.
    intros s es H. induction H as [s Hp | s c rest es Hp Hr Hl IH].
    - cbn [length]. lia.
    - assert (Hs : s <> []).
      { apply (loop_rel_nonempty s ((dispatch (peek s), c) :: es)); [|discriminate].
        apply (loop_step s c rest es Hp Hr Hl). }
      pose proof (progress _ _ _ _ Hs Hr) as Hc.
      pose proof (split_ok _ _ _ _ Hr) as Hsp.
      subst s. rewrite app_length. destruct c as [|x c]; [congruence|].
      cbn [length]. lia.
  Qed.

  Theorem loop_consumed_nonempty : forall s es, loop_rel s es -> Forall (fun e => snd e <> []) es.
  Proof.
    intros s es H. induction H as [s Hp | s c rest es Hp Hr Hl IH].
    - apply Forall_nil.
    - apply Forall_cons; [|exact IH]. cbn [snd].
      assert (Hs : s <> []).
      { apply (loop_rel_nonempty s ((dispatch (peek s), c) :: es)); [|discriminate].
        apply (loop_step s c rest es Hp Hr Hl). }
      exact (progress _ _ _ _ Hs Hr).
  Qed.
End LoopFacts.

(* the typed reader only matters on the types that dispatch can return *)
Lemma read_loop_ext : forall (T : Type) (peek : str -> str) (dispatch : str -> option T)
    (rt rt' : T -> str -> str * str) (rd : str -> str * str),
  (forall p t s, dispatch p = Some t -> rt t s = rt' t s) ->
  forall fuel s, read_loop peek dispatch rt rd fuel s = read_loop peek dispatch rt' rd fuel s.
Proof.
  intros T peek dispatch rt rt' rd Hext. induction fuel as [|f IH]; intros s.
  - reflexivity.
  - destruct (peek_dec peek s) as [Hp|Hp].
    + rewrite (read_loop_S_nil T peek dispatch rt rd f s Hp).
      rewrite (read_loop_S_nil T peek dispatch rt' rd f s Hp). reflexivity.
    + rewrite (read_loop_S_cons T peek dispatch rt rd f s Hp).
      rewrite (read_loop_S_cons T peek dispatch rt' rd f s Hp).
      assert (He : reader T rt rd (dispatch (peek s)) s = reader T rt' rd (dispatch (peek s)) s).
      { unfold reader. destruct (dispatch (peek s)) as [t|] eqn:Ed; [|reflexivity].
        apply (Hext (peek s) t s Ed). }
      rewrite He. destruct (reader T rt' rd (dispatch (peek s)) s) as [c rest].
      rewrite IH. reflexivity.
Qed.

(* ===================================================================== *)
(* first match                                                            *)
(* ===================================================================== *)

Theorem find_idx_spec : forall {A} (p : A -> bool) (l : list A) i0 i, find_idx p l i0 = Some i <->
  exists k a, i = i0 + k /\ nth_error l k = Some a /\ p a = true /\
              forall j b, j < k -> nth_error l j = Some b -> p b = false.
Proof.
  intros A p l. induction l as [|x r IH]; intros i0 i; cbn [find_idx].
  - split.
    + intro H. discriminate H.
    + intros [k [a [_ [Hn _]]]]. destruct k; cbn [nth_error] in Hn; discriminate Hn.
  - destruct (p x) eqn:Epx.
    + split.
      * intro H. inversion H; subst. exists 0, x. split; [lia|]. split; [reflexivity|].
        split; [exact Epx|]. intros j b Hj. lia.
      * intros [k [a [Hi [Hn [Hpa Hall]]]]]. destruct k as [|k].
        -- subst i. f_equal. lia.
        -- assert (Hf : p x = false). { apply (Hall 0 x); [lia|reflexivity]. }
           congruence.
    + rewrite (IH (S i0) i). split.
      * intros [k [a [Hi [Hn [Hpa Hall]]]]]. exists (S k), a.
        split; [lia|]. split; [exact Hn|]. split; [exact Hpa|].
        intros j b Hj Hb. destruct j as [|j].
        -- cbn [nth_error] in Hb. inversion Hb; subst. exact Epx.
        -- cbn [nth_error] in Hb. apply (Hall j b); [lia|exact Hb].
      * intros [k [a [Hi [Hn [Hpa Hall]]]]]. destruct k as [|k].
        -- cbn [nth_error] in Hn. inversion Hn; subst. congruence.
        -- exists k, a. split; [lia|]. split; [exact Hn|]. split; [exact Hpa|].
           intros j b Hj Hb. apply (Hall (S j) b); [lia|exact Hb].
Qed.

Theorem find_idx_none : forall {A} (p : A -> bool) (l : list A) i0, find_idx p l i0 = None <-> forall a, In a l -> p a = false.
Proof.
  intros A p l. induction l as [|x r IH]; intros i0; cbn [find_idx].
  - split; [|reflexivity]. intros _ a Ha. destruct Ha.
  - destruct (p x) eqn:Epx.
    + split.
      * intro H. discriminate H.
      * intro H. assert (Hf : p x = false). { apply H. left. reflexivity. } congruence.
    + rewrite (IH (S i0)). split.
      * intros H a [Ha|Ha]; [subst a; exact Epx|exact (H a Ha)].
      * intros H a Ha. apply H. right. exact Ha.
Qed.

Lemma find_idx_bound : forall {A} (p : A -> bool) (l : list A) i, find_idx p l 0 = Some i -> i < length l.
Proof.
  intros A p l i H. apply find_idx_spec in H. destruct H as [k [a [Hi [Hn _]]]].
  subst i. cbn [Nat.add]. apply nth_error_Some. rewrite Hn. discriminate.
Qed.

(* ===================================================================== *)
(* loops that read line by line                                           *)
(* ===================================================================== *)

Definition line_peek (s : str) : str := fst (readline s).

Lemma lines_loop_rel : forall (T : Type) (dispatch : str -> option T) (rt : T -> str -> str * str) s es,
  (forall p t s', dispatch p = Some t -> rt t s' = readline s') ->
  loop_rel T line_peek dispatch rt readline s es ->
  map snd es = split_lines s /\ Forall (fun e => fst e = dispatch (snd e)) es.
Proof.
  intros T dispatch rt s es Hrt H. induction H as [s Hp | s c rest es Hp Hr Hl IH].
  - unfold line_peek in Hp. apply readline_fst_nil in Hp. subst s. split; [reflexivity|apply Forall_nil].
  - destruct IH as [IH1 IH2].
    assert (Hrd : readline s = (c, rest)).
    { unfold reader in Hr. destruct (dispatch (line_peek s)) as [t|] eqn:Ed.
      - rewrite (Hrt _ _ s Ed) in Hr. exact Hr.
      - exact Hr. }
    assert (Hs : s <> []). { intro Hs. subst s. apply Hp. reflexivity. }
    split.
    + cbn [map snd]. rewrite (split_lines_readline s Hs). rewrite Hrd. cbn [fst snd].
      rewrite IH1. reflexivity.
    + apply Forall_cons; [|exact IH2]. cbn [fst snd]. unfold line_peek. rewrite Hrd. reflexivity.
Qed.

Lemma line_reader_split : forall (T : Type) t s c rest,
  reader T (fun (_ : T) (s : str) => readline s) readline t s = (c, rest) -> s = c ++ rest.
Proof.
  intros T t s c rest H. unfold reader in H. destruct t; apply readline_split; exact H.
Qed.

Lemma line_reader_progress : forall (T : Type) t s c rest, s <> [] ->
  reader T (fun (_ : T) (s : str) => readline s) readline t s = (c, rest) -> c <> [].
Proof.
  intros T t s c rest Hs H.
  assert (Hr : readline s = (c, rest)). { unfold reader in H. destruct t; exact H. }
  pose proof (readline_progress s Hs) as Hp. rewrite Hr in Hp. exact Hp.
Qed.

(* ===================================================================== *)
(* C04: register files in text storage                                    *)
(* ===================================================================== *)

Lemma regfile_text_loop : forall fr fd ls rs fuel s es,
  read_regfile fr fd Text ls rs fuel s = Some es ->
  loop_rel nat line_peek (reg_dispatch rs) (fun (_ : nat) (s : str) => readline s) readline s es.
Proof.
  intros fr fd ls rs fuel s es H. unfold read_regfile in H. apply read_loop_rel in H. exact H.
Qed.

Theorem regfile_text_lines : forall fr fd ls rs fuel s es,
  read_regfile fr fd Text ls rs fuel s = Some es -> map snd es = split_lines s.
Proof.
  intros fr fd ls rs fuel s es H. apply regfile_text_loop in H.
  apply lines_loop_rel in H; [exact (proj1 H)|]. intros p t s' _. reflexivity.
Qed.

Theorem regfile_text_dispatch : forall fr fd ls rs fuel s es,
  read_regfile fr fd Text ls rs fuel s = Some es -> Forall (fun e => fst e = reg_dispatch rs (snd e)) es.
Proof.
  intros fr fd ls rs fuel s es H. apply regfile_text_loop in H.
  apply lines_loop_rel in H; [exact (proj2 H)|]. intros p t s' _. reflexivity.
Qed.

Theorem regfile_text_total : forall fr fd ls rs s,
  exists es, read_regfile fr fd Text ls rs (S (length s)) s = Some es.
Proof.
  intros fr fd ls rs s. unfold read_regfile.
  apply (loop_total nat line_peek (reg_dispatch rs) (fun (_ : nat) (s : str) => readline s) readline).
  - apply line_reader_split.
  - apply line_reader_progress.
  - reflexivity.
  - lia.
Qed.

Theorem regfile_text_count : forall fr fd ls rs fuel s es,
  read_regfile fr fd Text ls rs fuel s = Some es -> length es = length (split_lines s) /\ length es <= length s.
Proof.
  intros fr fd ls rs fuel s es H. split.
  - rewrite <- (regfile_text_lines fr fd ls rs fuel s es H). rewrite map_length. reflexivity.
  - apply regfile_text_loop in H.
    apply (loop_count nat line_peek (reg_dispatch rs) (fun (_ : nat) (s : str) => readline s) readline) with (s := s).
    + apply line_reader_split.
    + apply line_reader_progress.
    + exact H.
Qed.

(* ===================================================================== *)
(* C18: binary register files                                             *)
(* ===================================================================== *)

(* the typed reader, made total outside the declared registers (never used there) *)
Definition bin_rt (rs : list regdef) (i : nat) (s : str) : str * str :=
  if i <? length rs then reg_consume true Binary (nth_reg rs i) s else readline s.

Lemma bin_reader_split : forall rs t s c rest,
  reader nat (bin_rt rs) (default_consume true Binary) t s = (c, rest) -> s = c ++ rest.
Proof.
  intros rs t s c rest H. unfold reader in H. destruct t as [i|].
  - unfold bin_rt in H. destruct (i <? length rs) eqn:Ei.
    + cbn [reg_consume] in H. inversion H; subst. symmetry. apply firstn_skipn.
    + apply readline_split. exact H.
  - cbn [default_consume] in H. apply readline_split. exact H.
Qed.

Lemma bin_reader_progress : forall rs, Forall (fun r => 0 < composite_size r) rs ->
  forall t s c rest, s <> [] ->
  reader nat (bin_rt rs) (default_consume true Binary) t s = (c, rest) -> c <> [].
Proof.
  intros rs Hrs t s c rest Hs H. unfold reader in H. destruct t as [i|].
  - unfold bin_rt in H. destruct (i <? length rs) eqn:Ei.
    + apply Nat.ltb_lt in Ei. cbn [reg_consume] in H. inversion H; subst.
      apply rp_firstn_nonempty; [|exact Hs].
      cbn [bin_request]. rewrite Forall_forall in Hrs. apply Hrs.
      unfold nth_reg. apply nth_In. exact Ei.
    + pose proof (readline_progress s Hs) as Hp. rewrite H in Hp. exact Hp.
  - cbn [default_consume] in H. pose proof (readline_progress s Hs) as Hp. rewrite H in Hp. exact Hp.
Qed.

Theorem regfile_binary_total : forall ls rs s, 0 < ls ->
  Forall (fun r => 0 < composite_size r) rs ->
  exists es, read_regfile true true Binary ls rs (S (length s)) s = Some es /\ length es <= length s /\
             concat (map snd es) = s.
Proof.
  intros ls rs s Hls Hrs. unfold read_regfile.
  assert (Hext : forall fuel s0,
    read_loop (reg_peek Binary ls) (reg_dispatch rs)
      (fun (i : nat) (s1 : str) => reg_consume true Binary (nth_reg rs i) s1)
      (default_consume true Binary) fuel s0 =
    read_loop (reg_peek Binary ls) (reg_dispatch rs) (bin_rt rs) (default_consume true Binary) fuel s0).
  { apply read_loop_ext. intros p t s0 Hd. unfold reg_dispatch in Hd.
    apply find_idx_bound in Hd. unfold bin_rt. apply Nat.ltb_lt in Hd. rewrite Hd. reflexivity. }
  assert (Hpn : forall s0, reg_peek Binary ls s0 = [] -> s0 = []).
  { intros s0 H0. cbn [reg_peek] in H0. destruct ls as [|n]; [lia|].
    destruct s0 as [|a s0]; [reflexivity|]. cbn [firstn] in H0. discriminate H0. }
  assert (Hpe : reg_peek Binary ls [] = []).
  { cbn [reg_peek]. apply firstn_nil. }
  destruct (loop_total nat (reg_peek Binary ls) (reg_dispatch rs) (bin_rt rs) (default_consume true Binary)
              (bin_reader_split rs) (bin_reader_progress rs Hrs) Hpe (S (length s)) s (Nat.lt_succ_diag_r _))
    as [es Hes].
  exists es. split; [rewrite Hext; exact Hes|].
  apply read_loop_rel in Hes. split.
  - apply (loop_count nat (reg_peek Binary ls) (reg_dispatch rs) (bin_rt rs) (default_consume true Binary)
             (bin_reader_split rs) (bin_reader_progress rs Hrs) s es Hes).
  - apply (loop_accounting nat (reg_peek Binary ls) (reg_dispatch rs) (bin_rt rs) (default_consume true Binary)
             (bin_reader_split rs) Hpn s es Hes).
Qed.

Theorem regfile_binary_as_found_diverges : forall fuel,
  read_regfile true false Binary 1 [] fuel [0%N] = None.
Proof.
  unfold read_regfile. induction fuel as [|f IH].
  - reflexivity.
  - rewrite read_loop_S_cons.
    + cbn [reg_peek firstn reg_dispatch find_idx reader default_consume]. rewrite IH. reflexivity.
    + cbn [reg_peek firstn]. discriminate.
Qed.

(* ===================================================================== *)
(* C12: block files                                                       *)
(* ===================================================================== *)

Lemma raw_block_fuel_split : forall fuel ends s c rest,
  raw_block_fuel fuel ends s = (c, rest) -> s = c ++ rest.
Proof.
  induction fuel as [|f IH]; intros ends s c rest H; cbn [raw_block_fuel] in H.
  - inversion H; subst. reflexivity.
  - destruct s as [|a s'].
    + inversion H; subst. reflexivity.
    + destruct (readline (a :: s')) as [l r] eqn:Er. apply readline_split in Er.
      destruct (ends l).
      * inversion H; subst. exact Er.
      * destruct (raw_block_fuel f ends r) as [c' r'] eqn:Ef. inversion H; subst.
        apply IH in Ef. rewrite Er. rewrite Ef. rewrite app_assoc. reflexivity.
Qed.

Theorem raw_block_split : forall ends s c rest, raw_block ends s = (c, rest) -> s = c ++ rest.
Proof.
  intros ends s c rest H. unfold raw_block in H. apply raw_block_fuel_split in H. exact H.
Qed.

Theorem raw_block_progress : forall ends s c rest, s <> [] -> raw_block ends s = (c, rest) -> c <> [].
Proof.
  intros ends s c rest Hs H. unfold raw_block in H. cbn [raw_block_fuel] in H.
  destruct s as [|a s']; [congruence|].
  pose proof (readline_progress (a :: s') Hs) as Hp.
  destruct (readline (a :: s')) as [l r] eqn:Er. cbn [fst] in Hp.
  destruct (ends l).
  - inversion H; subst. exact Hp.
  - destruct (raw_block_fuel (length (a :: s')) ends r) as [c' r'] eqn:Ef. inversion H; subst.
    intro Hc. apply app_eq_nil in Hc. destruct Hc as [Hc _]. exact (Hp Hc).
Qed.

Lemma raw_bytes_fuel_split : forall fuel ends s c rest,
  raw_bytes_fuel fuel ends s = (c, rest) -> s = c ++ rest.
Proof.
  induction fuel as [|f IH]; intros ends s c rest H; cbn [raw_bytes_fuel] in H.
  - inversion H; subst. reflexivity.
  - destruct s as [|b s'].
    + inversion H; subst. reflexivity.
    + destruct (ends [b]).
      * inversion H; subst. reflexivity.
      * destruct (raw_bytes_fuel f ends s') as [c' r'] eqn:Ef. inversion H; subst.
        apply IH in Ef. rewrite Ef. reflexivity.
Qed.

(* the typed reader of block files *)
Definition block_rt (sto : storage) (bs : list blockdef) : nat -> str -> str * str :=
  fun (i : nat) (s : str) => match sto with
                | Text => raw_block (pat_search (b_end (nth_block bs i))) s
                | Binary => match s with
                            | [] => ([], [])
                            | b :: r => let (c, rest) := raw_bytes_fuel (S (length r)) (pat_search (b_end (nth_block bs i))) r in
                                        (b :: c, rest)
                            end
                end.

Lemma block_reader_split : forall sto bs t s c rest,
  reader nat (block_rt sto bs) readline t s = (c, rest) -> s = c ++ rest.
Proof.
  intros sto bs t s c rest H. unfold reader in H. destruct t as [i|].
  - unfold block_rt in H. destruct sto.
    + apply raw_block_split in H. exact H.
    + destruct s as [|b r].
      * inversion H; subst. reflexivity.
      * destruct (raw_bytes_fuel (S (length r)) (pat_search (b_end (nth_block bs i))) r) as [c' r'] eqn:Ef.
        inversion H; subst. apply raw_bytes_fuel_split in Ef. rewrite Ef. reflexivity.
  - apply readline_split. exact H.
Qed.

Lemma block_reader_progress : forall sto bs t s c rest, s <> [] ->
  reader nat (block_rt sto bs) readline t s = (c, rest) -> c <> [].
Proof.
  intros sto bs t s c rest Hs H. unfold reader in H. destruct t as [i|].
  - unfold block_rt in H. destruct sto.
    + apply (raw_block_progress _ s c rest Hs H).
    + destruct s as [|b r]; [congruence|].
      destruct (raw_bytes_fuel (S (length r)) (pat_search (b_end (nth_block bs i))) r) as [c' r'] eqn:Ef.
      inversion H; subst. discriminate.
  - pose proof (readline_progress s Hs) as Hp. rewrite H in Hp. exact Hp.
Qed.

Lemma block_peek_nil : forall sto s, reg_peek sto 1 s = [] -> s = [].
Proof.
  intros sto s H. destruct sto; cbn [reg_peek] in H.
  - apply readline_fst_nil. exact H.
  - destruct s as [|a s]; [reflexivity|]. cbn [firstn] in H. discriminate H.
Qed.

Lemma block_peek_end : forall sto, reg_peek sto 1 [] = [].
Proof. intros sto. destruct sto; reflexivity. Qed.

Lemma blockfile_loop : forall us sto bs fuel s es,
  read_blockfile us sto bs fuel s = Some es ->
  loop_rel nat (reg_peek sto 1) (block_dispatch us sto bs) (block_rt sto bs) readline s es.
Proof.
  intros us sto bs fuel s es H. unfold read_blockfile in H. apply read_loop_rel in H. exact H.
Qed.

Theorem blockfile_accounting : forall us sto bs fuel s es,
  read_blockfile us sto bs fuel s = Some es -> concat (map snd es) = s /\ write_raw es = s.
Proof.
  intros us sto bs fuel s es H. apply blockfile_loop in H.
  assert (Ha : concat (map snd es) = s).
  { apply (loop_accounting nat (reg_peek sto 1) (block_dispatch us sto bs) (block_rt sto bs) readline
             (block_reader_split sto bs) (block_peek_nil sto) s es H). }
  split; [exact Ha|]. unfold write_raw. exact Ha.
Qed.

Theorem blockfile_total : forall us sto bs s, exists es, read_blockfile us sto bs (S (length s)) s = Some es.
Proof.
  intros us sto bs s. unfold read_blockfile.
  apply (loop_total nat (reg_peek sto 1) (block_dispatch us sto bs) (block_rt sto bs) readline
           (block_reader_split sto bs) (block_reader_progress sto bs) (block_peek_end sto)).
  lia.
Qed.

Theorem blockfile_count : forall us sto bs fuel s es,
  read_blockfile us sto bs fuel s = Some es -> length es <= length s.
Proof.
  intros us sto bs fuel s es H. apply blockfile_loop in H.
  apply (loop_count nat (reg_peek sto 1) (block_dispatch us sto bs) (block_rt sto bs) readline
           (block_reader_split sto bs) (block_reader_progress sto bs) s es H).
Qed.

Theorem blockfile_dispatch : forall sto bs fuel s es,
  read_blockfile true sto bs fuel s = Some es ->
  loop_rel nat (reg_peek sto 1) (block_dispatch true sto bs)
    (fun (i : nat) (s : str) => match sto with
                | Text => raw_block (pat_search (b_end (nth_block bs i))) s
                | Binary => match s with
                            | [] => ([], [])
                            | b :: r => let (c, rest) := raw_bytes_fuel (S (length r)) (pat_search (b_end (nth_block bs i))) r in
                                        (b :: c, rest)
                            end
                end) readline s es.
Proof.
  intros sto bs fuel s es H. unfold read_blockfile in H. apply read_loop_rel in H. exact H.
Qed.

Theorem blockfile_binary_as_found : forall bs fuel s es,
  read_blockfile false Binary bs fuel s = Some es -> Forall (fun e => fst e = None) es.
Proof.
  intros bs fuel s es H. apply blockfile_loop in H. apply loop_rel_fst in H.
  apply (Forall_impl _ (P := fun e => exists p, fst e = block_dispatch false Binary bs p)); [|exact H].
  intros e [p Hp]. rewrite Hp. reflexivity.
Qed.

(* ===================================================================== *)
(* C13: section files                                                     *)
(* ===================================================================== *)

Lemma take_lines_split : forall k s c rest, take_lines k s = (c, rest) -> s = c ++ rest.
Proof.
  induction k as [|k IH]; intros s c rest H; cbn [take_lines] in H.
  - inversion H; subst. reflexivity.
  - destruct (readline s) as [l r] eqn:Er. apply readline_split in Er.
    destruct (take_lines k r) as [c' r'] eqn:Et. inversion H; subst.
    apply IH in Et. rewrite Et. rewrite app_assoc. reflexivity.
Qed.

Theorem sec_consume_split : forall d s c rest, sec_consume d s = (c, rest) -> s = c ++ rest.
Proof.
  intros d s c rest H. destruct d as [k|p]; cbn [sec_consume] in H.
  - apply take_lines_split in H. exact H.
  - destruct s as [|a s'].
    + inversion H; subst. reflexivity.
    + apply raw_block_split in H. exact H.
Qed.

Theorem read_declared_spec : forall ds i s es rest, read_declared ds i s = (es, rest) ->
  s = concat (map snd es) ++ rest /\ map fst es = map Some (seq i (length ds)).
Proof.
  induction ds as [|d r IH]; intros i s es rest H; cbn [read_declared] in H.
  - inversion H; subst. split; reflexivity.
  - destruct (sec_consume d s) as [c rest1] eqn:Ec.
    destruct (read_declared r (S i) rest1) as [es' rest'] eqn:Ed.
    inversion H; subst. apply sec_consume_split in Ec. apply IH in Ed. destruct Ed as [Ed1 Ed2].
    split.
    + cbn [map concat snd]. rewrite <- app_assoc. rewrite <- Ed1. exact Ec.
    + cbn [map fst length seq]. rewrite Ed2. reflexivity.
Qed.

Lemma read_declared_length : forall ds i s es rest, read_declared ds i s = (es, rest) -> length es = length ds.
Proof.
  intros ds i s es rest H. apply read_declared_spec in H. destruct H as [_ H].
  rewrite <- (map_length fst es). rewrite H. rewrite map_length. apply seq_length.
Qed.

Definition sec_loop (fuel : nat) (s : str) : option (list (option nat * str)) :=
  read_loop (T := nat) line_peek (fun _ => None) (fun (_ : nat) (s : str) => readline s) readline fuel s.

Lemma sectionfile_unfold : forall ds fuel s,
  read_sectionfile ds fuel s =
  option_map (app (fst (read_declared ds 0 s))) (sec_loop fuel (snd (read_declared ds 0 s))).
Proof.
  intros ds fuel s. unfold read_sectionfile, sec_loop.
  destruct (read_declared ds 0 s) as [es1 rest]. cbn [fst snd].
  (* dispatch is constantly None, so the typed reader is dead code: the two loops are convertible *)
  reflexivity.
Qed.

Lemma sec_loop_facts : forall fuel s es, sec_loop fuel s = Some es ->
  concat (map snd es) = s /\ map snd es = split_lines s /\ Forall (fun e => fst e = None) es /\
  length es <= length s.
Proof.
  intros fuel s es H. unfold sec_loop in H. apply read_loop_rel in H.
  split; [|split; [|split]].
  - apply (loop_accounting nat line_peek (fun _ => None) (fun (_ : nat) (s : str) => readline s) readline
             (line_reader_split nat) readline_fst_nil s es H).
  - apply lines_loop_rel in H; [exact (proj1 H)|]. intros p t s' Hd. discriminate Hd.
  - apply loop_rel_fst in H.
    apply (Forall_impl _ (P := fun e : option nat * str => exists p : str, fst e = None)); [|exact H].
    intros e [p Hp]. exact Hp.
  - apply (loop_count nat line_peek (fun _ => None) (fun (_ : nat) (s : str) => readline s) readline
             (line_reader_split nat) (line_reader_progress nat) s es H).
Qed.

Theorem sectionfile_spec : forall ds s, exists es,
  read_sectionfile ds (S (length s)) s = Some es /\
  write_raw es = s /\
  map fst (firstn (length ds) es) = map Some (seq 0 (length ds)) /\
  Forall (fun e => fst e = None) (skipn (length ds) es) /\
  length es <= length ds + length s.
Proof.
  intros ds s. destruct (read_declared ds 0 s) as [es1 rest] eqn:Ed.
  pose proof (read_declared_spec ds 0 s es1 rest Ed) as [Hs Hf].
  pose proof (read_declared_length ds 0 s es1 rest Ed) as Hlen.
  assert (Hrl : length rest <= length s).
  { pose proof (f_equal (@length N) Hs) as HL. rewrite app_length in HL. lia. }
  destruct (loop_total nat line_peek (fun _ => None) (fun (_ : nat) (s : str) => readline s) readline
              (line_reader_split nat) (line_reader_progress nat) (eq_refl : line_peek [] = [])
              (S (length s)) rest) as [es2 Hes2]; [lia|].
  fold (sec_loop (S (length s)) rest) in Hes2.
  pose proof (sec_loop_facts _ _ _ Hes2) as [Hacc [_ [Hnone Hcnt]]].
  exists (es1 ++ es2). split; [|split; [|split; [|split]]].
  - rewrite sectionfile_unfold. rewrite Ed. cbn [fst snd]. rewrite Hes2. reflexivity.
  - unfold write_raw. rewrite map_app. rewrite concat_app. rewrite Hacc. symmetry. exact Hs.
  - rewrite <- Hlen. rewrite rp_firstn_app_exact. rewrite Hlen. exact Hf.
  - rewrite <- Hlen. rewrite rp_skipn_app_exact. exact Hnone.
  - rewrite app_length. lia.
Qed.

Theorem sectionfile_handoff : forall ds s es, read_sectionfile ds (S (length s)) s = Some es ->
  let declared := firstn (length ds) es in
  let rest := skipn (length (concat (map snd declared))) s in
  fst (read_declared ds 0 s) = declared /\ map snd (skipn (length ds) es) = split_lines rest.
Proof.
  intros ds s es H. rewrite sectionfile_unfold in H.
  destruct (read_declared ds 0 s) as [es1 rest1] eqn:Ed. cbn [fst snd] in H.
  pose proof (read_declared_spec ds 0 s es1 rest1 Ed) as [Hs Hf].
  pose proof (read_declared_length ds 0 s es1 rest1 Ed) as Hlen.
  destruct (sec_loop (S (length s)) rest1) as [es2|] eqn:El; cbn [option_map] in H; [|discriminate H].
  inversion H; subst es.
  pose proof (sec_loop_facts _ _ _ El) as [_ [Hlines _]].
  cbv zeta. cbn [fst]. rewrite <- Hlen. rewrite rp_firstn_app_exact. rewrite rp_skipn_app_exact.
  split; [reflexivity|].
  rewrite Hlines. f_equal. rewrite Hs at 1. rewrite rp_skipn_app_exact. reflexivity.
Qed.

(* ===================================================================== *)
Print Assumptions readline_split.
Print Assumptions readline_progress.
Print Assumptions readline_nil.
Print Assumptions readline_shape.
Print Assumptions split_lines_readline.
Print Assumptions split_lines_concat.
Print Assumptions read_loop_rel.
Print Assumptions loop_accounting.
Print Assumptions loop_total.
Print Assumptions loop_count.
Print Assumptions loop_consumed_nonempty.
Print Assumptions find_idx_spec.
Print Assumptions find_idx_none.
Print Assumptions regfile_text_lines.
Print Assumptions regfile_text_dispatch.
Print Assumptions regfile_text_total.
Print Assumptions regfile_text_count.
Print Assumptions regfile_binary_total.
Print Assumptions regfile_binary_as_found_diverges.
Print Assumptions raw_block_split.
Print Assumptions raw_block_progress.
Print Assumptions blockfile_accounting.
Print Assumptions blockfile_total.
Print Assumptions blockfile_count.
Print Assumptions blockfile_dispatch.
Print Assumptions blockfile_binary_as_found.
Print Assumptions sec_consume_split.
Print Assumptions read_declared_spec.
Print Assumptions sectionfile_spec.
Print Assumptions sectionfile_handoff.

(* ===================================================================== *)
(* the extent of a raw block / an until-section, line by line             *)
(* ===================================================================== *)
(* the lines up to and including the first one on which [e] holds (all of them if there is none), and the others *)
Fixpoint take_until (e : str -> bool) (ls : list str) : list str :=
  match ls with [] => [] | l :: r => if e l then [l] else l :: take_until e r end.
Fixpoint drop_until (e : str -> bool) (ls : list str) : list str :=
  match ls with [] => [] | l :: r => if e l then r else drop_until e r end.

Lemma raw_block_fuel_spec : forall fuel e s, length s < fuel ->
  raw_block_fuel fuel e s = (concat (take_until e (split_lines s)), concat (drop_until e (split_lines s))).
Proof.
  induction fuel as [|f IH]; intros e s Hlen; [lia|]. cbn [raw_block_fuel].
  destruct s as [|a s'].
  - reflexivity.
  - assert (Hne : a :: s' <> []) by discriminate.
    rewrite (split_lines_readline (a :: s') Hne).
    destruct (readline (a :: s')) as [l r] eqn:Er. cbn [fst snd take_until drop_until].
    pose proof (readline_split _ _ _ Er) as Hs.
    pose proof (readline_progress (a :: s') Hne) as Hp. rewrite Er in Hp. cbn [fst] in Hp.
    destruct (e l).
    + cbn [concat]. rewrite app_nil_r. rewrite split_lines_concat. reflexivity.
    + assert (Hr : length r < f).
      { assert (length (a :: s') = length l + length r) by (rewrite Hs at 1; apply app_length).
        destruct l; [congruence|]. cbn [length] in *. lia. }
      rewrite (IH e r Hr). cbn [concat]. reflexivity.
Qed.

Theorem raw_block_spec : forall e s,
  raw_block e s = (concat (take_until e (split_lines s)), concat (drop_until e (split_lines s))).
Proof. intros e s. unfold raw_block. apply raw_block_fuel_spec. lia. Qed.

Lemma take_drop_until : forall e ls, take_until e ls ++ drop_until e ls = ls.
Proof.
  intros e ls. induction ls as [|l r IH]; [reflexivity|]. cbn [take_until drop_until].
  destruct (e l); [reflexivity|]. cbn [app]. rewrite IH. reflexivity.
Qed.

(* the block ends on the first line where [e] holds: no earlier line of it satisfies [e] *)
Lemma take_until_shape : forall e ls,
  (exists pre l, take_until e ls = pre ++ [l] /\ e l = true /\ Forall (fun x => e x = false) pre) \/
  (take_until e ls = ls /\ Forall (fun x => e x = false) ls).
Proof.
  intros e ls. induction ls as [|l r IH].
  - right. split; [reflexivity|constructor].
  - cbn [take_until]. destruct (e l) eqn:El.
    + left. exists [], l. split; [reflexivity|]. split; [exact El|constructor].
    + destruct IH as [[pre [x [Ht [Hx Hpre]]]]|[Ht Hall]].
      * left. exists (l :: pre), x. split; [rewrite Ht; reflexivity|]. split; [exact Hx|]. constructor; assumption.
      * right. split; [rewrite Ht; reflexivity|]. constructor; assumption.
Qed.
