(* Proofs about fields and single-line layout: C02 (frame), C03 (locality). *)
From Coq Require Import ZArith NArith List Bool Arith Lia.
From Coq Require Import Floats.SpecFloat.
From Cfi Require Import Glue.Sx Py.PyStr Py.PyNum Py.PyBits Py.PyDate Model.Field Model.Line.
Import ListNotations.

(* ===================================================================== *)
(* generic list helpers                                                   *)
(* ===================================================================== *)

Lemma fp_nth_error_repeat_lt : forall (A : Type) (a : A) n i,
  i < n -> nth_error (repeat a n) i = Some a.
Proof.
  intros A a n. induction n as [|n IHn]; intros i Hi.
  - lia.
  - destruct i as [|i]; cbn [repeat nth_error].
    + reflexivity.
    + apply IHn. lia.
Qed.

Lemma fp_nth_error_repeat_ge : forall (A : Type) (a : A) n i,
  n <= i -> nth_error (repeat a n) i = None.
Proof.
  intros A a n i Hi. apply nth_error_None. rewrite repeat_length. exact Hi.
Qed.

Lemma fp_firstn_app_exact : forall (A : Type) (a b : list A) n,
  length a = n -> firstn n (a ++ b) = a.
Proof.
  intros A a. induction a as [|x a IHa]; intros b n Hn.
  - cbn [length] in Hn. subst n. reflexivity.
  - cbn [length] in Hn. destruct n as [|n]; [lia|].
    cbn [app firstn]. f_equal. apply IHa. lia.
Qed.

Lemma fp_skipn_app_exact : forall (A : Type) (a b : list A) n,
  length a = n -> skipn n (a ++ b) = b.
Proof.
  intros A a. induction a as [|x a IHa]; intros b n Hn.
  - cbn [length] in Hn. subst n. reflexivity.
  - cbn [length] in Hn. destruct n as [|n]; [lia|].
    cbn [app skipn]. apply IHa. lia.
Qed.

Lemma fp_nth_error_firstn : forall (A : Type) (l : list A) n i,
  i < n -> nth_error (firstn n l) i = nth_error l i.
Proof.
  intros A l. induction l as [|x l IHl]; intros n i Hi.
  - rewrite firstn_nil. reflexivity.
  - destruct n as [|n]; [lia|].
    destruct i as [|i]; cbn [firstn nth_error].
    + reflexivity.
    + apply IHl. lia.
Qed.

Lemma fp_nth_error_skipn : forall (A : Type) (l : list A) n i,
  nth_error (skipn n l) i = nth_error l (n + i).
Proof.
  intros A l. induction l as [|x l IHl]; intros n i.
  - rewrite skipn_nil. destruct i; destruct n; reflexivity.
  - destruct n as [|n].
    + reflexivity.
    + cbn [skipn Nat.add nth_error]. apply IHl.
Qed.

(* ===================================================================== *)
(* pad / ljust / rjust                                                    *)
(* ===================================================================== *)

Lemma pad_length : forall n, length (pad n) = n.
Proof. intros n. unfold pad. apply repeat_length. Qed.

Lemma ljust_length : forall n (s : str), length (ljust n s) = length s + (n - length s).
Proof. intros n s. unfold ljust. rewrite app_length, pad_length. reflexivity. Qed.

Lemma rjust_length : forall n (s : str), length (rjust n s) = (n - length s) + length s.
Proof. intros n s. unfold rjust. rewrite app_length, pad_length. reflexivity. Qed.

Lemma ljust_length_ge : forall n (s : str), n <= length (ljust n s).
Proof. intros n s. rewrite ljust_length. lia. Qed.

Lemma rjust_length_ge : forall n (s : str), n <= length (rjust n s).
Proof. intros n s. rewrite rjust_length. lia. Qed.

Theorem ljust_spec : forall n l i,
  nth_error (ljust n l) i = if Nat.ltb i (length l) then nth_error l i else if Nat.ltb i n then Some SP else None.
Proof.
  intros n l i. unfold ljust.
  destruct (Nat.ltb i (length l)) eqn:Hil.
  - apply Nat.ltb_lt in Hil. apply nth_error_app1. exact Hil.
  - apply Nat.ltb_ge in Hil. rewrite nth_error_app2 by exact Hil.
    unfold pad.
    destruct (Nat.ltb i n) eqn:Hin.
    + apply Nat.ltb_lt in Hin. apply fp_nth_error_repeat_lt. lia.
    + apply Nat.ltb_ge in Hin. apply fp_nth_error_repeat_ge. lia.
Qed.

(* ===================================================================== *)
(* splice                                                                 *)
(* ===================================================================== *)

(* the line blank-padded to the end of the span *)
Definition padded (f : field) (l : str) : str :=
  if Nat.ltb (length l) (stop f) then ljust (stop f) l else l.

Lemma padded_length : forall f l, length (padded f l) = Nat.max (length l) (stop f).
Proof.
  intros f l. unfold padded.
  destruct (Nat.ltb (length l) (stop f)) eqn:Hlt.
  - apply Nat.ltb_lt in Hlt. rewrite ljust_length. lia.
  - apply Nat.ltb_ge in Hlt. lia.
Qed.

Lemma splice_padded : forall f t l,
  splice f t l = firstn (start f) (padded f l) ++ t ++ skipn (stop f) (padded f l).
Proof. intros f t l. reflexivity. Qed.

Lemma stop_eq : forall f, stop f = start f + size f.
Proof. intros f. reflexivity. Qed.

Lemma splice_prefix_length : forall f l, length (firstn (start f) (padded f l)) = start f.
Proof.
  intros f l. rewrite firstn_length, padded_length. rewrite stop_eq. lia.
Qed.

Theorem splice_length : forall f t l, length t = size f ->
  length (splice f t l) = Nat.max (length l) (stop f).
Proof.
  intros f t l Ht. rewrite splice_padded.
  rewrite !app_length, splice_prefix_length, skipn_length, padded_length, Ht.
  rewrite stop_eq. lia.
Qed.

Theorem splice_span : forall f t l, length t = size f -> span f (splice f t l) = t.
Proof.
  intros f t l Ht. rewrite splice_padded. unfold span, slice.
  rewrite fp_skipn_app_exact by apply splice_prefix_length.
  apply fp_firstn_app_exact. rewrite Ht, stop_eq. lia.
Qed.

(* every position outside [start, stop) holds what the blank-padded input line held *)
Theorem splice_outside : forall f t l i, length t = size f -> (i < start f \/ stop f <= i) ->
  nth_error (splice f t l) i = nth_error (if Nat.ltb (length l) (stop f) then ljust (stop f) l else l) i.
Proof.
  intros f t l i Ht Hi.
  change (nth_error (splice f t l) i = nth_error (padded f l) i).
  rewrite splice_padded.
  destruct Hi as [Hi | Hi].
  - rewrite nth_error_app1 by (rewrite splice_prefix_length; exact Hi).
    apply fp_nth_error_firstn. exact Hi.
  - rewrite stop_eq in Hi.
    rewrite nth_error_app2 by (rewrite splice_prefix_length; lia).
    rewrite splice_prefix_length.
    rewrite nth_error_app2 by (rewrite Ht; lia).
    rewrite Ht, fp_nth_error_skipn. f_equal. rewrite stop_eq. lia.
Qed.

(* ===================================================================== *)
(* renderings                                                             *)
(* ===================================================================== *)

Theorem render_width_ge : forall f v t, render f v = Some t -> size f <= length t.
Proof.
  intros f v t Hr. unfold render, render_gen in Hr.
  destruct (missing v) eqn:Hm.
  - inversion Hr as [Ht]. rewrite pad_length. lia.
  - destruct (kind f) as [| | dd sci upper sep | [|fmt r]]; destruct v as [| | z | x | s | d];
      try discriminate Hr;
      try (destruct (sci && sci_raises x dd); [discriminate Hr|]);
      inversion Hr as [Ht]; first [apply ljust_length_ge | apply rjust_length_ge].
Qed.

Theorem fits_width : forall f v, fits f v = true -> exists t, render f v = Some t /\ length t = size f.
Proof.
  intros f v Hf. unfold fits in Hf.
  destruct (render f v) as [t|] eqn:Hr; [|discriminate Hf].
  apply andb_true_iff in Hf. destruct Hf as [Hlen _].
  apply Nat.eqb_eq in Hlen.
  exists t. split; [reflexivity | exact Hlen].
Qed.

Theorem render_missing : forall f v, missing v = true -> render f v = Some (pad (size f)).
Proof.
  intros f v Hm. unfold render, render_gen. rewrite Hm. reflexivity.
Qed.

Lemma digits_of_pos_fuel_no_SP : forall fuel z acc,
  ~ In SP acc -> ~ In SP (digits_of_pos_fuel fuel z acc).
Proof.
  intros fuel. induction fuel as [|fuel IH]; intros z acc Hacc.
  - cbn [digits_of_pos_fuel]. exact Hacc.
  - cbn [digits_of_pos_fuel].
    destruct (z <? 10)%Z.
    + intros [Heq | Hin].
      * unfold SP in Heq. lia.
      * exact (Hacc Hin).
    + apply IH. intros [Heq | Hin].
      * unfold SP in Heq. lia.
      * exact (Hacc Hin).
Qed.

Lemma dec_digits_no_SP : forall z, ~ In SP (dec_digits z).
Proof.
  intros z. unfold dec_digits. apply digits_of_pos_fuel_no_SP. intros Hin. exact Hin.
Qed.

Lemma str_of_Z_no_SP : forall z, ~ In SP (str_of_Z z).
Proof.
  intros z. unfold str_of_Z. destruct (z <? 0)%Z.
  - intros [Heq | Hin].
    + unfold MINUS, SP in Heq. discriminate Heq.
    + exact (dec_digits_no_SP _ Hin).
  - apply dec_digits_no_SP.
Qed.

Theorem render_int : forall f z, kind f = KInt ->
  render f (VInt z) = Some (pad (size f - length (str_of_Z z)) ++ str_of_Z z) /\ ~ In SP (str_of_Z z).
Proof.
  intros f z Hk. split.
  - unfold render, render_gen. cbn [missing]. rewrite Hk. reflexivity.
  - apply str_of_Z_no_SP.
Qed.

Theorem render_lit : forall f s, kind f = KLit -> render f (VStr s) = Some (s ++ pad (size f - length s)).
Proof.
  intros f s Hk. unfold render, render_gen. cbn [missing]. rewrite Hk. reflexivity.
Qed.

Theorem render_date : forall f fmt r d, kind f = KDate (fmt :: r) ->
  render f (VDate d) = Some (strftime fmt d ++ pad (size f - length (strftime fmt d))).
Proof.
  intros f fmt r d Hk. unfold render, render_gen. cbn [missing]. rewrite Hk. reflexivity.
Qed.

Theorem render_float : forall f dd sci upper sep x, kind f = KFloat dd sci upper sep -> missing (VFloat x) = false ->
  sci && sci_raises x dd = false ->
  let body := float_text true (size f) dd sci upper sep x in
  render f (VFloat x) = Some (pad (size f - length body) ++ body).
Proof.
  intros f dd sci upper sep x Hk Hm Hr body.
  unfold render, render_gen. rewrite Hm, Hk, Hr. reflexivity.
Qed.

(* the E branch raises OverflowError exactly when round() does (or the value is infinite) *)
Theorem render_float_raises : forall f dd upper sep x, kind f = KFloat dd true upper sep -> missing (VFloat x) = false ->
  sci_raises x dd = true -> render f (VFloat x) = None.
Proof.
  intros f dd upper sep x Hk Hm Hr.
  unfold render, render_gen. rewrite Hm, Hk, Hr. reflexivity.
Qed.

(* ===================================================================== *)
(* field write frame                                                      *)
(* ===================================================================== *)

Theorem field_write_frame : forall f v l l', fits f v = true -> field_write f v l = Some l' ->
  length l' = Nat.max (length l) (stop f) /\
  (exists t, render f v = Some t /\ span f l' = t) /\
  (forall i, (i < start f \/ stop f <= i) ->
     nth_error l' i = nth_error (if Nat.ltb (length l) (stop f) then ljust (stop f) l else l) i).
Proof.
  intros f v l l' Hfits Hw.
  destruct (fits_width f v Hfits) as [t [Hr Hlen]].
  unfold field_write, field_write_gen in Hw.
  change (render_gen true f v) with (render f v) in Hw.
  rewrite Hr in Hw. cbn [option_map] in Hw.
  inversion Hw as [Hl']. clear Hw.
  split; [|split].
  - apply splice_length. exact Hlen.
  - exists t. split; [exact Hr|]. apply splice_span. exact Hlen.
  - intros i Hi. apply splice_outside; assumption.
Qed.

Lemma fits_bin_width : forall f v, fits_bin f v = true ->
  exists t, render_bin f v = Some t /\ length t = size f.
Proof.
  intros f v Hf. unfold fits_bin in Hf.
  destruct (render_bin f v) as [t|] eqn:Hr; [|discriminate Hf].
  apply Nat.eqb_eq in Hf.
  exists t. split; [reflexivity | exact Hf].
Qed.

Theorem field_write_bin_frame : forall f v l l', fits_bin f v = true -> field_write_bin f v l = Some l' ->
  length l' = Nat.max (length l) (stop f) /\
  (exists t, render_bin f v = Some t /\ span f l' = t) /\
  (forall i, (i < start f \/ stop f <= i) ->
     nth_error l' i = nth_error (if Nat.ltb (length l) (stop f) then ljust (stop f) l else l) i).
Proof.
  intros f v l l' Hfits Hw.
  destruct (fits_bin_width f v Hfits) as [t [Hr Hlen]].
  unfold field_write_bin in Hw.
  rewrite Hr in Hw. cbn [option_map] in Hw.
  inversion Hw as [Hl']. clear Hw.
  split; [|split].
  - apply splice_length. exact Hlen.
  - exists t. split; [exact Hr|]. apply splice_span. exact Hlen.
  - intros i Hi. apply splice_outside; assumption.
Qed.

(* ===================================================================== *)
(* whole line                                                             *)
(* ===================================================================== *)

Definition covered (fs : list field) (i : nat) : Prop := exists f, In f fs /\ start f <= i < stop f.

Lemma set_values_fields : forall st vs, fields_of (set_values st vs) = fields_of st.
Proof.
  intros st. induction st as [|[f v0] st IH]; intros vs.
  - destruct vs; reflexivity.
  - destruct vs as [|v vs].
    + reflexivity.
    + cbn [set_values]. unfold fields_of in *. cbn [map fst]. f_equal. apply IH.
Qed.

Lemma covered_cons_not : forall f fs i,
  ~ covered (f :: fs) i -> (i < start f \/ stop f <= i) /\ ~ covered fs i.
Proof.
  intros f fs i Hnc. split.
  - destruct (Nat.lt_ge_cases i (start f)) as [Hlt | Hge]; [left; exact Hlt|].
    destruct (Nat.lt_ge_cases i (stop f)) as [Hlt2 | Hge2]; [|right; exact Hge2].
    exfalso. apply Hnc. exists f. split; [left; reflexivity | lia].
  - intros [g [Hin Hg]]. apply Hnc. exists g. split; [right; exact Hin | exact Hg].
Qed.

(* a generic fold of a framed single-field write over the (field, value) slots *)
Section WriteFold.
  Variable w : field -> value -> str -> option str.
  Variable ok : field -> value -> bool.
  Hypothesis w_frame : forall f v l l', ok f v = true -> w f v l = Some l' ->
    length l' = Nat.max (length l) (stop f) /\
    (forall i, (i < start f \/ stop f <= i) ->
       nth_error l' i = nth_error (if Nat.ltb (length l) (stop f) then ljust (stop f) l else l) i).

  Fixpoint wfold (st : lstate) (l : str) : option str :=
    match st with
    | [] => Some l
    | (f, v) :: st' => match w f v l with
                       | Some l' => wfold st' l'
                       | None => None
                       end
    end.

  Lemma wfold_shape : forall st l body,
    Forall (fun fv => ok (fst fv) (snd fv) = true) st ->
    wfold st l = Some body ->
    length body = Nat.max (length l) (max_stop (fields_of st)) /\
    forall i, i < length body -> ~ covered (fields_of st) i ->
      nth_error body i = if Nat.ltb i (length l) then nth_error l i else Some SP.
  Proof.
    intros st. induction st as [|[f v] st IH]; intros l body Hall Hw.
    - cbn [wfold] in Hw. inversion Hw as [Hb]. subst body.
      cbn [fields_of map max_stop fold_right]. split; [lia|].
      intros i Hi _. apply Nat.ltb_lt in Hi. rewrite Hi. reflexivity.
    - cbn [wfold] in Hw.
      destruct (w f v l) as [l1|] eqn:Hw1; [|discriminate Hw].
      inversion Hall as [|fv st0 Hok Hall' Heq]. subst fv st0.
      cbn [fst snd] in Hok.
      destruct (w_frame f v l l1 Hok Hw1) as [Hlen1 Hout1].
      destruct (IH l1 body Hall' Hw) as [Hlen Hout].
      assert (Hms : max_stop (fields_of ((f, v) :: st)) = Nat.max (stop f) (max_stop (fields_of st))).
      { reflexivity. }
      split.
      + rewrite Hms, Hlen, Hlen1. lia.
      + intros i Hi Hnc.
        change (fields_of ((f, v) :: st)) with (f :: fields_of st) in Hnc.
        destruct (covered_cons_not f (fields_of st) i Hnc) as [Hif Hnc'].
        rewrite (Hout i Hi Hnc').
        destruct (Nat.ltb i (length l1)) eqn:Hil1.
        * apply Nat.ltb_lt in Hil1.
          rewrite (Hout1 i Hif).
          destruct (Nat.ltb (length l) (stop f)) eqn:Hls.
          -- apply Nat.ltb_lt in Hls. rewrite ljust_spec.
             destruct (Nat.ltb i (length l)) eqn:Hil; [reflexivity|].
             assert (His : Nat.ltb i (stop f) = true).
             { apply Nat.ltb_lt. lia. }
             rewrite His. reflexivity.
          -- apply Nat.ltb_ge in Hls.
             assert (Hil : Nat.ltb i (length l) = true).
             { apply Nat.ltb_lt. lia. }
             rewrite Hil. reflexivity.
        * apply Nat.ltb_ge in Hil1.
          assert (Hil : Nat.ltb i (length l) = false).
          { apply Nat.ltb_ge. lia. }
          rewrite Hil. reflexivity.
  Qed.

  Lemma wfold_shape_nil : forall st body,
    Forall (fun fv => ok (fst fv) (snd fv) = true) st ->
    wfold st [] = Some body ->
    length body = max_stop (fields_of st) /\
    forall i, i < length body -> ~ covered (fields_of st) i -> nth_error body i = Some SP.
  Proof.
    intros st body Hall Hw.
    destruct (wfold_shape st [] body Hall Hw) as [Hlen Hout].
    cbn [length] in Hlen. split; [lia|].
    intros i Hi Hnc. rewrite (Hout i Hi Hnc). reflexivity.
  Qed.
End WriteFold.

Lemma write_fields_wfold : forall st l, write_fields true st l = wfold field_write st l.
Proof.
  intros st. induction st as [|[f v] st IH]; intros l.
  - reflexivity.
  - cbn [write_fields wfold].
    change (field_write_gen true f v l) with (field_write f v l).
    destruct (field_write f v l) as [l1|]; [apply IH | reflexivity].
Qed.

Lemma write_fields_bin_wfold : forall st l, write_fields_bin st l = wfold field_write_bin st l.
Proof.
  intros st. induction st as [|[f v] st IH]; intros l.
  - reflexivity.
  - cbn [write_fields_bin wfold].
    destruct (field_write_bin f v l) as [l1|]; [apply IH | reflexivity].
Qed.

Lemma field_write_frame_weak : forall f v l l', fits f v = true -> field_write f v l = Some l' ->
  length l' = Nat.max (length l) (stop f) /\
  (forall i, (i < start f \/ stop f <= i) ->
     nth_error l' i = nth_error (if Nat.ltb (length l) (stop f) then ljust (stop f) l else l) i).
Proof.
  intros f v l l' Hf Hw.
  destruct (field_write_frame f v l l' Hf Hw) as [H1 [_ H3]]. split; assumption.
Qed.

Lemma field_write_bin_frame_weak : forall f v l l', fits_bin f v = true -> field_write_bin f v l = Some l' ->
  length l' = Nat.max (length l) (stop f) /\
  (forall i, (i < start f \/ stop f <= i) ->
     nth_error l' i = nth_error (if Nat.ltb (length l) (stop f) then ljust (stop f) l else l) i).
Proof.
  intros f v l l' Hf Hw.
  destruct (field_write_bin_frame f v l l' Hf Hw) as [H1 [_ H3]]. split; assumption.
Qed.

Theorem write_pos_shape : forall st vs st' text,
  write_pos st vs = (st', Some text) ->
  Forall (fun fv => fits (fst fv) (snd fv) = true) st' ->
  exists body, text = body ++ [NL] /\ length body = max_stop (fields_of st) /\
    forall i, i < length body -> ~ covered (fields_of st) i -> nth_error body i = Some SP.
Proof.
  intros st vs st' text Hw Hall.
  unfold write_pos, write_pos_gen in Hw.
  inversion Hw as [[Hst Hopt]]. clear Hw.
  rewrite Hst in Hopt.
  destruct (write_fields true st' []) as [body|] eqn:Hwf; [|discriminate Hopt].
  cbn [option_map] in Hopt. inversion Hopt as [Htext]. clear Hopt.
  rewrite write_fields_wfold in Hwf.
  destruct (wfold_shape_nil field_write fits field_write_frame_weak st' body Hall Hwf) as [Hlen Hout].
  assert (Hfs : fields_of st' = fields_of st).
  { rewrite <- Hst. apply set_values_fields. }
  rewrite Hfs in Hlen, Hout.
  exists body. split; [reflexivity|]. split; [exact Hlen | exact Hout].
Qed.

Theorem write_bin_shape : forall st vs st' body,
  write_bin st vs = (st', Some body) ->
  Forall (fun fv => fits_bin (fst fv) (snd fv) = true) st' ->
  length body = max_stop (fields_of st) /\
    forall i, i < length body -> ~ covered (fields_of st) i -> nth_error body i = Some SP.
Proof.
  intros st vs st' body Hw Hall.
  unfold write_bin in Hw.
  inversion Hw as [[Hst Hwf]]. clear Hw.
  rewrite Hst in Hwf.
  rewrite write_fields_bin_wfold in Hwf.
  destruct (wfold_shape_nil field_write_bin fits_bin field_write_bin_frame_weak st' body Hall Hwf)
    as [Hlen Hout].
  assert (Hfs : fields_of st' = fields_of st).
  { rewrite <- Hst. apply set_values_fields. }
  rewrite Hfs in Hlen, Hout.
  split; [exact Hlen | exact Hout].
Qed.

(* ===================================================================== *)
(* C03: reading is a function of the span only                            *)
(* ===================================================================== *)

Theorem field_read_reference : forall f l, field_read f l = interp (kind f) (span f l).
Proof. intros f l. reflexivity. Qed.

Theorem field_read_bin_reference : forall f l, field_read_bin f l = interp_bin f (span f l).
Proof. intros f l. reflexivity. Qed.

Theorem field_read_local : forall f l1 l2, span f l1 = span f l2 -> field_read f l1 = field_read f l2.
Proof. intros f l1 l2 Hs. unfold field_read. rewrite Hs. reflexivity. Qed.

Theorem field_read_bin_local : forall f l1 l2, span f l1 = span f l2 -> field_read_bin f l1 = field_read_bin f l2.
Proof. intros f l1 l2 Hs. unfold field_read_bin. rewrite Hs. reflexivity. Qed.

Theorem span_short : forall f (l : str), length l <= start f -> span f l = [].
Proof.
  intros f l Hl. unfold span, slice.
  rewrite skipn_all2 by exact Hl. apply firstn_nil.
Qed.

Theorem span_length : forall f (l : str), length (span f l) = Nat.min (size f) (length l - start f).
Proof.
  intros f l. unfold span, slice.
  rewrite firstn_length, skipn_length, stop_eq.
  replace (start f + size f - start f) with (size f) by lia. reflexivity.
Qed.

Theorem span_app : forall f (pre mid post : str), length pre = start f -> length mid = size f ->
  span f (pre ++ mid ++ post) = mid.
Proof.
  intros f pre mid post Hpre Hmid. unfold span, slice.
  rewrite fp_skipn_app_exact by exact Hpre.
  apply fp_firstn_app_exact. rewrite Hmid, stop_eq. lia.
Qed.

(* whatever surrounds the span is irrelevant *)
Theorem span_outside_irrelevant : forall f (pre pre' mid post post' : str),
  length pre = start f -> length pre' = start f -> length mid = size f ->
  field_read f (pre ++ mid ++ post) = field_read f (pre' ++ mid ++ post').
Proof.
  intros f pre pre' mid post post' Hpre Hpre' Hmid.
  apply field_read_local.
  rewrite (span_app f pre mid post Hpre Hmid).
  rewrite (span_app f pre' mid post' Hpre' Hmid).
  reflexivity.
Qed.

(* a positional / binary line read returns the per-field readings, whatever the slots held *)
Theorem read_pos_values : forall st l, values_of (read_pos st l) = map (fun f => field_read f l) (fields_of st).
Proof.
  intros st l. unfold values_of, read_pos, fields_of.
  rewrite !map_map. apply map_ext. intros fv. reflexivity.
Qed.

Theorem read_bin_values : forall st l, values_of (read_bin st l) = map (fun f => field_read_bin f l) (fields_of st).
Proof.
  intros st l. unfold values_of, read_bin, fields_of.
  rewrite !map_map. apply map_ext. intros fv. reflexivity.
Qed.

Theorem read_pos_fields : forall st l, fields_of (read_pos st l) = fields_of st.
Proof.
  intros st l. unfold read_pos, fields_of.
  rewrite map_map. apply map_ext. intros fv. reflexivity.
Qed.

(* ===================================================================== *)
Print Assumptions splice_length.
Print Assumptions splice_span.
Print Assumptions splice_outside.
Print Assumptions ljust_spec.
Print Assumptions render_width_ge.
Print Assumptions fits_width.
Print Assumptions render_missing.
Print Assumptions render_int.
Print Assumptions render_lit.
Print Assumptions render_date.
Print Assumptions render_float.
Print Assumptions field_write_frame.
Print Assumptions field_write_bin_frame.
Print Assumptions write_pos_shape.
Print Assumptions write_bin_shape.
Print Assumptions field_read_reference.
Print Assumptions field_read_bin_reference.
Print Assumptions field_read_local.
Print Assumptions field_read_bin_local.
Print Assumptions span_short.
Print Assumptions span_length.
Print Assumptions span_app.
Print Assumptions span_outside_irrelevant.
Print Assumptions read_pos_values.
Print Assumptions read_bin_values.
Print Assumptions read_pos_fields.
