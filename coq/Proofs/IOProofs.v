From Coq Require Import ZArith NArith List Bool Arith Lia.
From Cfi Require Import Glue.Sx Py.PyStr Model.IO.
Import ListNotations.

(* the elements before the first failing one, and the failing exception *)
Fixpoint first_fail (bs : list wbeh) : option nat :=
  match bs with [] => None | WEmit _ :: r => first_fail r | WFail e :: _ => Some e end.
Fixpoint emitted_before (bs : list wbeh) : str :=
  match bs with [] => [] | WEmit t :: r => t ++ emitted_before r | WFail _ :: _ => [] end.

Lemma write_loop_spec bs acc : write_loop bs acc = (first_fail bs, acc ++ emitted_before bs).
Proof.
  revert acc; induction bs as [|b r IH]; intro acc; simpl.
  - rewrite app_nil_r. reflexivity.
  - destruct b as [t|e]; simpl.
    + rewrite IH. rewrite app_assoc. reflexivity.
    + rewrite app_nil_r. reflexivity.
Qed.

Lemma run_write_spec dst bs :
  let r := run_write actual dst bs in
  raised r = first_fail bs /\ output r = emitted_before bs /\ fw_closed r = fw_opened r /\ buf_closed r = false /\
  (dst = Buffer -> buf_pos r = length (emitted_before bs) /\ fw_opened r = 0).
Proof.
  unfold run_write. rewrite write_loop_spec. cbn [app].
  destruct dst; destruct (first_fail bs) as [e|]; cbn;
    (split; [reflexivity|split; [reflexivity|split; [reflexivity|split; [reflexivity|]]]]);
    intro H; try discriminate H; split; reflexivity.
Qed.

(* splitting a behaviour list at the first failure *)
Lemma first_fail_split bs e : first_fail bs = Some e ->
  exists pre post, bs = pre ++ WFail e :: post /\ first_fail pre = None /\ emitted_before bs = emitted_before pre.
Proof.
  induction bs as [|b r IH]; simpl; [discriminate|].
  destruct b as [t|e'].
  - intro H. destruct (IH H) as (pre & post & -> & Hn & He). exists (WEmit t :: pre), post. simpl. rewrite He. auto.
  - intros [= ->]. exists [], r. auto.
Qed.

Lemma first_fail_none bs : first_fail bs = None -> emitted_before bs = concat (map (fun b => match b with WEmit t => t | WFail _ => [] end) bs).
Proof.
  induction bs as [|b r IH]; simpl; auto. destruct b as [t|e]; [|discriminate]. intro H. rewrite (IH H). reflexivity.
Qed.

(* reading *)
Fixpoint first_rfail (bs : list rbeh) : option nat :=
  match bs with [] => None | RConsume _ :: r => first_rfail r | RFail e :: _ => Some e end.

Lemma read_loop_io_exc bs s c : fst (read_loop_io bs s c) = first_rfail bs.
Proof. revert s c; induction bs as [|b r IH]; intros s c; simpl; auto. destruct b; simpl; auto. Qed.

Lemma read_loop_io_prefix bs s c : exists k, snd (read_loop_io bs s c) = c ++ firstn k s.
Proof.
  revert s c; induction bs as [|b r IH]; intros s c; simpl.
  - exists 0. simpl. rewrite app_nil_r. reflexivity.
  - destruct b as [n|e]; simpl.
    + destruct (IH (skipn n s) (c ++ firstn n s)) as [k Hk]. exists (n + k). rewrite Hk.
      rewrite <- app_assoc. f_equal.
      clear. revert n k; induction s as [|a s IHs]; intros n k.
      * rewrite !firstn_nil, skipn_nil, firstn_nil. reflexivity.
      * destruct n as [|n]; simpl; [reflexivity|]. f_equal. apply IHs.
    + exists 0. simpl. rewrite app_nil_r. reflexivity.
Qed.

Lemma run_read_spec src content bs :
  let r := run_read actual src content bs in
  raised r = first_rfail bs /\ fw_closed r = fw_opened r /\ (exists k, output r = firstn k content).
Proof.
  unfold run_read. pose proof (read_loop_io_exc bs content []) as He.
  destruct (read_loop_io_prefix bs content []) as [k Hk].
  destruct (read_loop_io bs content []) as [exc cons]. simpl in *. subst exc.
  split; [reflexivity|split].
  - destruct (first_rfail bs); reflexivity.
  - exists k. exact Hk.
Qed.

(* without `with`, or with an __exit__ that does not close, a failure leaks the handle *)
Lemma leak_without_with : forall e, let r := run_write {| with_stmt := false; exit_closes := true |} Path [WFail e] in
  fw_closed r <> fw_opened r.
Proof. intro e. simpl. discriminate. Qed.
Lemma leak_without_close : let r := run_write {| with_stmt := true; exit_closes := false |} Path [] in
  fw_closed r <> fw_opened r.
Proof. simpl. discriminate. Qed.

(* C16 *)
Section P.
  Variable fs : str -> option (list N).
  Variable dec : list N -> option str.
  Variable enc : str -> option (list N).
  Variable tr : str -> str.
  Variable A : Type.
  Variable parse : str -> A.
  Hypothesis codec : forall s b, enc s = Some b -> dec b = Some s.
  Hypothesis dec_nil : dec [] = Some [].

  Lemma read_path_content p b s :
    fs p = Some b -> dec b = Some s -> tr s = s -> fs s = None ->
    read_any fs dec tr A parse p = read_any fs dec tr A parse s.
  Proof. intros Hp Hd Ht Hs. unfold read_any. rewrite Hp, Hd, Hs. cbn [option_map]. rewrite Ht. reflexivity. Qed.

  (* in general the path read sees the translated text *)
  Lemma read_path_translated p b s :
    fs p = Some b -> dec b = Some s -> read_any fs dec tr A parse p = Some (parse (tr s)).
  Proof. intros Hp Hd. unfold read_any. rewrite Hp, Hd. reflexivity. Qed.

  Lemma write_path_decodes chunks b : write_path enc chunks = Some b -> dec b = Some (write_mem chunks).
  Proof.
    unfold write_path, write_mem. destruct chunks as [|c r].
    - intro H. inversion H. exact dec_nil.
    - apply codec.
  Qed.

  (* round trip through disk = round trip through memory *)
  Lemma disk_roundtrip (text : list str) b p (fs' : str -> option (list N)) :
    write_path enc text = Some b -> fs' p = Some b -> tr (write_mem text) = write_mem text -> fs' (write_mem text) = None ->
    read_any fs' dec tr A parse p = read_any fs' dec tr A parse (write_mem text).
  Proof.
    intros Hw Hp Ht Hn. unfold read_any. rewrite Hp, (write_path_decodes _ _ Hw), Hn. cbn [option_map]. rewrite Ht. reflexivity.
  Qed.
End P.
