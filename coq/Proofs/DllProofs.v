(* Proofs about the linked containers (Model/Dll.v): invariant + refinement to [list]. *)
From Coq Require Import ZArith NArith List Bool Arith Lia.
From Cfi Require Import Glue.Sx Model.Dll.
Import ListNotations.

Definition hd_opt {A} (l : list A) : option A := match l with [] => None | a :: _ => Some a end.
Fixpoint last_opt {A} (l : list A) : option A :=
  match l with [] => None | [a] => Some a | _ :: t => last_opt t end.

(* members are chained: each member's prev is its predecessor (None for the first),
   its next its successor (None for the last) *)
Fixpoint chain (h : heap) (p : option nat) (l : list nat) : Prop :=
  match l with
  | [] => True
  | a :: r => prev (h a) = p /\ next (h a) = hd_opt r /\ chain h (Some a) r
  end.

(* the container state [s] represents the list [l] *)
Definition wf (s : heap * cont) (l : list nat) : Prop :=
  l <> [] /\ NoDup l /\ chain (fst s) None l /\
  root (snd s) = hd_opt l /\ head (snd s) = last_opt l.

(* run a whole history *)
Fixpoint run (s : heap * cont) (ops : list op) : option (heap * cont) :=
  match ops with
  | [] => Some s
  | o :: r => match step_ok s o with Some s' => run s' r | None => None end
  end.
Fixpoint pre_all (ops : list op) (l : list nat) : Prop :=
  match ops with
  | [] => True
  | o :: r => pre o l /\ pre_all r (apply_list o l)
  end.


Arguments set_prev : simpl never.
Arguments set_next : simpl never.

(* ================= generic list facts ================= *)
Lemma snoc_case : forall l : list nat, l = [] \/ exists l' a, l = l' ++ [a].
Proof.
  intros l. induction l as [|a l' _] using rev_ind.
  - left; reflexivity.
  - right. exists l', a. reflexivity.
Qed.

Lemma nodup_mid : forall (l1 : list nat) a l2,
  NoDup (l1 ++ a :: l2) <-> ~ In a l1 /\ ~ In a l2 /\ NoDup (l1 ++ l2).
Proof.
  intros l1 a l2. split.
  - intros H. pose proof (NoDup_remove_1 _ _ _ H) as H1. pose proof (NoDup_remove_2 _ _ _ H) as H2.
    rewrite in_app_iff in H2. tauto.
  - induction l1 as [|b l1 IH]; simpl; intros (H1 & H2 & H3).
    + constructor; assumption.
    + inversion H3 as [|b' l' Hb Hnd]; subst. constructor.
      * rewrite in_app_iff in *. simpl. intros [Hin | [Heq | Hin]].
        -- apply Hb. left. exact Hin.
        -- apply H1. left. symmetry. exact Heq.
        -- apply Hb. right. exact Hin.
      * apply IH. tauto.
Qed.

Lemma nodup_app_l : forall (l1 l2 : list nat), NoDup (l1 ++ l2) -> NoDup l1.
Proof.
  intros l1 l2. induction l1 as [|a l1 IH]; simpl; intros H.
  - constructor.
  - inversion H as [|a' l' Ha Hnd]; subst. constructor.
    + intros Hin. apply Ha. apply in_or_app. left. exact Hin.
    + apply IH. exact Hnd.
Qed.

Lemma nodup_app_r : forall (l1 l2 : list nat), NoDup (l1 ++ l2) -> NoDup l2.
Proof.
  intros l1 l2. induction l1 as [|a l1 IH]; simpl; intros H.
  - exact H.
  - inversion H as [|a' l' Ha Hnd]; subst. apply IH. exact Hnd.
Qed.

Lemma hd_opt_app : forall (l1 l2 : list nat), l1 <> [] -> hd_opt (l1 ++ l2) = hd_opt l1.
Proof. intros l1 l2 H. destruct l1 as [|a l1]; [congruence | reflexivity]. Qed.

Lemma hd_opt_in : forall (l : list nat) a, hd_opt l = Some a -> In a l.
Proof. intros l a H. destruct l as [|b l]; simpl in H; [discriminate | left; congruence]. Qed.

Lemma last_opt_cons_ne : forall (a : nat) l, l <> [] -> last_opt (a :: l) = last_opt l.
Proof. intros a l H. destruct l as [|b l]; [congruence | reflexivity]. Qed.

Lemma last_opt_app_cons : forall (l : list nat) a r, last_opt (l ++ a :: r) = last_opt (a :: r).
Proof.
  intros l a r. induction l as [|b l IH]; [reflexivity|].
  simpl app. rewrite last_opt_cons_ne; [exact IH | destruct l; discriminate].
Qed.

Lemma last_opt_snoc : forall (l : list nat) a, last_opt (l ++ [a]) = Some a.
Proof. intros l a. rewrite last_opt_app_cons. reflexivity. Qed.

Lemma last_opt_cons_some : forall (l : list nat) a, exists z, last_opt (a :: l) = Some z.
Proof.
  intros l. induction l as [|b l IH]; intros a.
  - exists a. reflexivity.
  - destruct (IH b) as [z Hz]. exists z. rewrite last_opt_cons_ne by discriminate. exact Hz.
Qed.

Lemma last_opt_in : forall (l : list nat) z, last_opt l = Some z -> In z l.
Proof.
  intros l. induction l as [|a l IH]; intros z H.
  - discriminate.
  - destruct l as [|b l'].
    + simpl in H. left. congruence.
    + rewrite last_opt_cons_ne in H by discriminate. right. apply IH. exact H.
Qed.

(* [olast l p]: the last element of [l], or [p] when [l] is empty; [ohd l q] dually *)
Fixpoint olast (l : list nat) (p : option nat) : option nat :=
  match l with [] => p | a :: r => olast r (Some a) end.
Definition ohd (l : list nat) (q : option nat) : option nat :=
  match l with a :: _ => Some a | [] => q end.

Lemma ohd_none : forall l, ohd l None = hd_opt l.
Proof. intros l. destruct l; reflexivity. Qed.

Lemma ohd_app : forall l1 l2 q, ohd (l1 ++ l2) q = ohd l1 (ohd l2 q).
Proof. intros l1 l2 q. destruct l1; reflexivity. Qed.

Lemma olast_app : forall l1 l2 p, olast (l1 ++ l2) p = olast l2 (olast l1 p).
Proof. intros l1. induction l1 as [|a l1 IH]; intros l2 p; simpl; [reflexivity | apply IH]. Qed.

Lemma olast_snoc : forall l a p, olast (l ++ [a]) p = Some a.
Proof. intros l a p. rewrite olast_app. reflexivity. Qed.

Lemma olast_last_opt : forall l p,
  olast l p = match last_opt l with Some z => Some z | None => p end.
Proof.
  intros l. induction l as [|a l IH]; intros p.
  - reflexivity.
  - simpl olast. rewrite IH. destruct l as [|b l'].
    + reflexivity.
    + rewrite (last_opt_cons_ne a (b :: l')) by discriminate.
      destruct (last_opt_cons_some l' b) as [z Hz]. rewrite Hz. reflexivity.
Qed.

Lemma olast_none : forall l, olast l None = last_opt l.
Proof. intros l. rewrite olast_last_opt. destruct (last_opt l); reflexivity. Qed.

(* ================= heap update facts ================= *)
Lemma next_set_prev : forall h x p y, next (set_prev h x p y) = next (h y).
Proof. intros h x p y. unfold set_prev. destruct (Nat.eqb_spec y x) as [E|E]; [subst|]; reflexivity. Qed.
Lemma prev_set_next : forall h x n y, prev (set_next h x n y) = prev (h y).
Proof. intros h x n y. unfold set_next. destruct (Nat.eqb_spec y x) as [E|E]; [subst|]; reflexivity. Qed.
Lemma prev_set_prev_eq : forall h x p, prev (set_prev h x p x) = p.
Proof. intros h x p. unfold set_prev. rewrite Nat.eqb_refl. reflexivity. Qed.
Lemma next_set_next_eq : forall h x n, next (set_next h x n x) = n.
Proof. intros h x n. unfold set_next. rewrite Nat.eqb_refl. reflexivity. Qed.
Lemma prev_set_prev_neq : forall h x p y, y <> x -> prev (set_prev h x p y) = prev (h y).
Proof. intros h x p y H. unfold set_prev. destruct (Nat.eqb_spec y x) as [E|E]; [contradiction | reflexivity]. Qed.
Lemma next_set_next_neq : forall h x n y, y <> x -> next (set_next h x n y) = next (h y).
Proof. intros h x n y H. unfold set_next. destruct (Nat.eqb_spec y x) as [E|E]; [contradiction | reflexivity]. Qed.

Ltac heap :=
  repeat (progress (rewrite ?next_set_prev, ?prev_set_next, ?prev_set_prev_eq, ?next_set_next_eq)
          || (rewrite prev_set_prev_neq by congruence)
          || (rewrite next_set_next_neq by congruence)).

(* ================= segments ================= *)
(* [seg h p l q]: like [chain], but the last member's next is [q] *)
Fixpoint seg (h : heap) (p : option nat) (l : list nat) (q : option nat) : Prop :=
  match l with
  | [] => True
  | a :: r => prev (h a) = p /\ next (h a) = ohd r q /\ seg h (Some a) r q
  end.

Lemma chain_seg : forall h l p, chain h p l <-> seg h p l None.
Proof.
  intros h l. induction l as [|a l IH]; intros p; simpl.
  - tauto.
  - rewrite IH, ohd_none. tauto.
Qed.

Lemma seg_app : forall h l1 l2 p q,
  seg h p (l1 ++ l2) q <-> seg h p l1 (ohd l2 q) /\ seg h (olast l1 p) l2 q.
Proof.
  intros h l1. induction l1 as [|a l1 IH]; intros l2 p q; simpl.
  - tauto.
  - rewrite IH, ohd_app. tauto.
Qed.

Lemma seg_ext : forall h h' l p q,
  (forall a, In a l -> prev (h' a) = prev (h a) /\ next (h' a) = next (h a)) ->
  seg h p l q -> seg h' p l q.
Proof.
  intros h h' l. induction l as [|a l IH]; intros p q Hext Hs; simpl in *.
  - exact Logic.I.
  - destruct Hs as (Hp & Hn & Hs). destruct (Hext a (or_introl eq_refl)) as [E1 E2].
    rewrite E1, E2. split; [exact Hp | split; [exact Hn |]].
    apply IH; [|exact Hs]. intros b Hb. apply Hext. right. exact Hb.
Qed.

Lemma seg_set_next_out : forall h x n l p q, ~ In x l -> seg h p l q -> seg (set_next h x n) p l q.
Proof.
  intros h x n l p q Hx Hs. apply (seg_ext h); [|exact Hs].
  intros a Ha. assert (Hne : a <> x) by (intros E; subst; contradiction).
  split; heap; reflexivity.
Qed.

Lemma seg_set_prev_out : forall h x n l p q, ~ In x l -> seg h p l q -> seg (set_prev h x n) p l q.
Proof.
  intros h x n l p q Hx Hs. apply (seg_ext h); [|exact Hs].
  intros a Ha. assert (Hne : a <> x) by (intros E; subst; contradiction).
  split; heap; reflexivity.
Qed.

Lemma seg_set_next_last : forall h a n l p q,
  ~ In a l -> seg h p (l ++ [a]) q -> seg (set_next h a n) p (l ++ [a]) n.
Proof.
  intros h a n l p q Ha Hs. apply seg_app in Hs. apply seg_app. simpl in *.
  destruct Hs as (H1 & Hp & _ & _). split.
  - apply seg_set_next_out; assumption.
  - heap. auto.
Qed.

Lemma seg_set_prev_first : forall h a p' l p q,
  ~ In a l -> seg h p (a :: l) q -> seg (set_prev h a p') p' (a :: l) q.
Proof.
  intros h a p' l p q Ha Hs. simpl in *. destruct Hs as (Hp & Hn & Hs).
  heap. split; [reflexivity | split; [exact Hn |]].
  apply seg_set_prev_out; assumption.
Qed.

(* ================= list-level operations on a split list ================= *)
Lemma insert_before_split : forall l1 b l2 x, ~ In b l1 ->
  insert_before b x (l1 ++ b :: l2) = l1 ++ x :: b :: l2.
Proof.
  intros l1 b l2 x. induction l1 as [|a l1 IH]; simpl; intros Hb.
  - rewrite Nat.eqb_refl. reflexivity.
  - destruct (Nat.eqb_spec a b) as [E|E]; [tauto|]. f_equal. apply IH. tauto.
Qed.

Lemma insert_after_split : forall l1 b l2 x, ~ In b l1 ->
  insert_after b x (l1 ++ b :: l2) = l1 ++ b :: x :: l2.
Proof.
  intros l1 b l2 x. induction l1 as [|a l1 IH]; simpl; intros Hb.
  - rewrite Nat.eqb_refl. reflexivity.
  - destruct (Nat.eqb_spec a b) as [E|E]; [tauto|]. f_equal. apply IH. tauto.
Qed.

Lemma remove_elt_split : forall l1 b l2, ~ In b l1 ->
  remove_elt b (l1 ++ b :: l2) = l1 ++ l2.
Proof.
  intros l1 b l2. induction l1 as [|a l1 IH]; simpl; intros Hb.
  - rewrite Nat.eqb_refl. reflexivity.
  - destruct (Nat.eqb_spec a b) as [E|E]; [tauto|]. f_equal. apply IH. tauto.
Qed.

(* ================= the concrete operations, computed ================= *)
Lemma add_before_root : forall (h : heap) c b x, root c = Some b ->
  add_before Nat.eqb (h, c) b x =
  (set_next (set_prev (set_prev h x (prev (h b))) b (Some x)) x (Some b),
   {| root := Some x; head := head c |}).
Proof.
  intros h c b x Hr. unfold add_before, is_end. rewrite Hr, Nat.eqb_refl. reflexivity.
Qed.

Lemma add_before_mid : forall (h : heap) c b x r p, root c = Some r -> r <> b -> prev (h b) = Some p ->
  add_before Nat.eqb (h, c) b x =
  (set_next (set_prev (set_prev (set_next h p (Some x)) x (Some p)) b (Some x)) x (Some b), c).
Proof.
  intros h c b x r p Hr Hne Hp. unfold add_before, is_end. rewrite Hr.
  replace (Nat.eqb b r) with false by (symmetry; apply Nat.eqb_neq; congruence).
  rewrite Hp. cbv beta iota zeta. rewrite prev_set_next, Hp. reflexivity.
Qed.

Lemma add_after_head : forall (h : heap) c a x, head c = Some a ->
  add_after Nat.eqb (h, c) a x =
  Some (set_prev (set_next (set_next h x (next (h a))) a (Some x)) x (Some a),
        {| root := root c; head := Some x |}).
Proof.
  intros h c a x Hh. unfold add_after, is_end. rewrite Hh, Nat.eqb_refl. reflexivity.
Qed.

Lemma add_after_mid : forall (h : heap) c a x z n, head c = Some z -> z <> a -> next (h a) = Some n ->
  add_after Nat.eqb (h, c) a x =
  Some (set_prev (set_next (set_next (set_prev h n (Some x)) x (Some n)) a (Some x)) x (Some a), c).
Proof.
  intros h c a x z n Hh Hne Hn. unfold add_after, is_end. rewrite Hh.
  replace (Nat.eqb a z) with false by (symmetry; apply Nat.eqb_neq; congruence).
  rewrite Hn. cbv beta iota zeta. rewrite next_set_prev, Hn. reflexivity.
Qed.

Lemma add_before_wf : forall s l1 b l2 x, wf s (l1 ++ b :: l2) -> ~ In x (l1 ++ b :: l2) ->
  wf (add_before Nat.eqb s b x) (l1 ++ x :: b :: l2).
Proof.
  intros [h c] l1 b l2 x (Hne & Hnd & Hch & Hr & Hh) Hx. simpl fst in *; simpl snd in *.
  assert (Hx1 : ~ In x l1) by (rewrite in_app_iff in Hx; tauto).
  assert (Hxb : x <> b) by (intros E; apply Hx; rewrite in_app_iff; right; left; symmetry; exact E).
  assert (Hx2 : ~ In x l2) by (intros E; apply Hx; rewrite in_app_iff; right; right; exact E).
  assert (Hnd' : NoDup (l1 ++ x :: b :: l2)).
  { apply nodup_mid. rewrite in_app_iff in Hx. tauto. }
  apply chain_seg in Hch. apply seg_app in Hch. destruct Hch as [H1 H2].
  simpl in H1, H2. destruct H2 as (Hpb & Hnb & H2).
  apply nodup_mid in Hnd. destruct Hnd as (Hb1 & Hb2 & Hnd).
  rewrite last_opt_app_cons in Hh.
  assert (Hh' : head c = last_opt (l1 ++ x :: b :: l2)).
  { rewrite last_opt_app_cons. rewrite last_opt_cons_ne by discriminate. exact Hh. }
  destruct (snoc_case l1) as [-> | (l1' & p & ->)].
  - simpl in Hr, Hpb. simpl app. rewrite (add_before_root h c b x Hr).
    unfold wf. simpl fst; simpl snd.
    split; [discriminate|]. split; [exact Hnd'|]. split; [|split; [reflexivity | exact Hh']].
    apply chain_seg. simpl. heap.
    split; [exact Hpb|]. split; [reflexivity|]. split; [reflexivity|]. split; [exact Hnb|].
    apply seg_set_next_out; [exact Hx2|]. apply seg_set_prev_out; [exact Hb2|].
    apply seg_set_prev_out; [exact Hx2|]. exact H2.
  - assert (Hl1 : l1' ++ [p] <> []) by (destruct l1'; discriminate).
    rewrite hd_opt_app in Hr by exact Hl1.
    assert (Hex : exists r, hd_opt (l1' ++ [p]) = Some r) by (destruct l1'; simpl; eauto).
    destruct Hex as [r Hr']. rewrite Hr' in Hr.
    assert (Hrb : r <> b).
    { intros E. subst r. apply Hb1. apply hd_opt_in. exact Hr'. }
    rewrite olast_snoc in Hpb.
    assert (Hpx : p <> x).
    { intros E. subst p. apply Hx1. apply in_or_app. right. left. reflexivity. }
    assert (Hpb' : p <> b).
    { intros E. subst p. apply Hb1. apply in_or_app. right. left. reflexivity. }
    rewrite <- app_assoc in Hnd. simpl in Hnd. apply nodup_mid in Hnd. destruct Hnd as (Hp1 & Hp2 & Hnd).
    rewrite (add_before_mid h c b x r p Hr Hrb Hpb).
    unfold wf. simpl fst; simpl snd.
    split; [destruct l1'; discriminate|]. split; [exact Hnd'|]. split; [|split; [|exact Hh']].
    + apply chain_seg. apply seg_app. split.
      * simpl ohd.
        apply seg_set_next_out; [exact Hx1|]. apply seg_set_prev_out; [exact Hb1|].
        apply seg_set_prev_out; [exact Hx1|].
        apply (seg_set_next_last h p (Some x) l1' None (Some b)); [exact Hp1 | exact H1].
      * rewrite olast_snoc. simpl. heap.
        split; [reflexivity|]. split; [reflexivity|]. split; [reflexivity|]. split; [exact Hnb|].
        apply seg_set_next_out; [exact Hx2|]. apply seg_set_prev_out; [exact Hb2|].
        apply seg_set_prev_out; [exact Hx2|]. apply seg_set_next_out; [exact Hp2|]. exact H2.
    + rewrite hd_opt_app by exact Hl1. rewrite Hr'. exact Hr.
Qed.

Lemma add_after_wf : forall s l1 a l2 x, wf s (l1 ++ a :: l2) -> ~ In x (l1 ++ a :: l2) ->
  exists s', add_after Nat.eqb s a x = Some s' /\ wf s' (l1 ++ a :: x :: l2).
Proof.
  intros [h c] l1 a l2 x (Hne & Hnd & Hch & Hr & Hh) Hx. simpl fst in *; simpl snd in *.
  assert (Hx1 : ~ In x l1) by (rewrite in_app_iff in Hx; tauto).
  assert (Hxa : x <> a) by (intros E; apply Hx; rewrite in_app_iff; right; left; symmetry; exact E).
  assert (Hx2 : ~ In x l2) by (intros E; apply Hx; rewrite in_app_iff; right; right; exact E).
  apply nodup_mid in Hnd. destruct Hnd as (Ha1 & Ha2 & Hnd).
  assert (Hnd' : NoDup (l1 ++ a :: x :: l2)).
  { apply nodup_mid. split; [exact Ha1|]. split.
    - simpl. intros [E|E]; [apply Hxa; exact E | apply Ha2; exact E].
    - apply nodup_mid. tauto. }
  apply chain_seg in Hch. apply seg_app in Hch. destruct Hch as [H1 H2].
  simpl in H1, H2. destruct H2 as (Hpa & Hna & H2).
  rewrite last_opt_app_cons in Hh.
  assert (Hr' : root c = hd_opt (l1 ++ a :: x :: l2)).
  { rewrite Hr. destruct l1; reflexivity. }
  assert (Hne'' : l1 ++ a :: x :: l2 <> []) by (destruct l1; discriminate).
  destruct l2 as [|n l2'].
  - simpl in Hh, Hna. rewrite (add_after_head h c a x Hh).
    eexists. split; [reflexivity|].
    unfold wf. simpl fst; simpl snd.
    split; [exact Hne''|]. split; [exact Hnd'|]. split; [|split; [exact Hr'|]].
    + apply chain_seg. apply seg_app. split.
      * simpl ohd. apply seg_set_prev_out; [exact Hx1|]. apply seg_set_next_out; [exact Ha1|].
        apply seg_set_next_out; [exact Hx1|]. exact H1.
      * simpl. heap.
        split; [exact Hpa|]. split; [reflexivity|]. split; [reflexivity|]. split; [exact Hna|]. exact Logic.I.
    + rewrite last_opt_app_cons. reflexivity.
  - rewrite last_opt_cons_ne in Hh by discriminate.
    destruct (last_opt_cons_some l2' n) as [z Hz]. rewrite Hz in Hh.
    assert (Hza : z <> a).
    { intros E. subst z. apply Ha2. apply last_opt_in. exact Hz. }
    simpl in Hna.
    assert (Hna' : n <> a) by (intros E; apply Ha2; left; exact E).
    assert (Hnx : n <> x) by (intros E; apply Hx2; left; exact E).
    apply nodup_mid in Hnd. destruct Hnd as (Hn1 & Hn2 & Hnd).
    simpl in H2. destruct H2 as (Hpn & Hnn & H2).
    rewrite (add_after_mid h c a x z n Hh Hza Hna).
    eexists. split; [reflexivity|].
    unfold wf. simpl fst; simpl snd.
    split; [exact Hne''|]. split; [exact Hnd'|]. split; [|split; [exact Hr'|]].
    + apply chain_seg. apply seg_app. split.
      * simpl ohd. apply seg_set_prev_out; [exact Hx1|]. apply seg_set_next_out; [exact Ha1|].
        apply seg_set_next_out; [exact Hx1|]. apply seg_set_prev_out; [exact Hn1|]. exact H1.
      * simpl. heap.
        split; [exact Hpa|]. split; [reflexivity|]. split; [reflexivity|]. split; [reflexivity|].
        split; [reflexivity|]. split; [exact Hnn|].
        assert (Hx2' : ~ In x l2') by (intros E; apply Hx2; right; exact E).
        assert (Ha2' : ~ In a l2') by (intros E; apply Ha2; right; exact E).
        apply seg_set_prev_out; [exact Hx2'|]. apply seg_set_next_out; [exact Ha2'|].
        apply seg_set_next_out; [exact Hx2'|]. apply seg_set_prev_out; [exact Hn2|]. exact H2.
    + rewrite last_opt_app_cons. rewrite !last_opt_cons_ne by discriminate. rewrite Hz. exact Hh.
Qed.

Lemma remove_eq : forall (h : heap) c r P N,
  prev (h r) = P -> next (h r) = N ->
  (forall p, P = Some p -> p <> r) -> (forall n, N = Some n -> n <> r) ->
  remove true (h, c) r =
  (match N with
   | Some n => set_prev (match P with Some p => set_next h p N | None => h end) n P
   | None => match P with Some p => set_next h p N | None => h end
   end,
   {| root := if oeqb (root c) (Some r) then N else root c;
      head := if oeqb (head c) (Some r) then P else head c |}).
Proof.
  intros h c r P N HP HN HPr HNr. unfold remove. cbv zeta. rewrite HP.
  destruct P as [p|].
  - assert (Hp : r <> p) by (intros E; apply (HPr p eq_refl); symmetry; exact E).
    rewrite (next_set_next_neq h p (next (h r)) r Hp). rewrite prev_set_next. rewrite HN, HP.
    destruct N as [n|].
    + assert (Hn : r <> n) by (intros E; apply (HNr n eq_refl); symmetry; exact E).
      heap. rewrite HN, HP. reflexivity.
    + heap. rewrite HN, HP. reflexivity.
  - rewrite HN, HP. destruct N as [n|].
    + assert (Hn : r <> n) by (intros E; apply (HNr n eq_refl); symmetry; exact E).
      heap. rewrite HN, HP. reflexivity.
    + rewrite HN, HP. reflexivity.
Qed.

Lemma remove_root : forall l1 r l2, ~ In r l1 ->
  (if oeqb (hd_opt (l1 ++ r :: l2)) (Some r) then ohd l2 None else hd_opt (l1 ++ r :: l2))
  = hd_opt (l1 ++ l2).
Proof.
  intros l1 r l2 Hr. destruct l1 as [|a l1]; simpl.
  - rewrite Nat.eqb_refl. apply ohd_none.
  - destruct (Nat.eqb_spec a r) as [E|E]; [|reflexivity]. exfalso. apply Hr. left. exact E.
Qed.

Lemma remove_head : forall l1 r l2, ~ In r l2 ->
  (if oeqb (last_opt (l1 ++ r :: l2)) (Some r) then olast l1 None else last_opt (l1 ++ r :: l2))
  = last_opt (l1 ++ l2).
Proof.
  intros l1 r l2 Hr. destruct l2 as [|n l2].
  - rewrite last_opt_snoc, app_nil_r. simpl. rewrite Nat.eqb_refl. apply olast_none.
  - rewrite !last_opt_app_cons. rewrite (last_opt_cons_ne r) by discriminate.
    destruct (last_opt_cons_some l2 n) as [z Hz]. rewrite Hz. simpl.
    destruct (Nat.eqb_spec z r) as [E|E]; [|reflexivity].
    exfalso. subst z. apply Hr. apply last_opt_in. exact Hz.
Qed.

Lemma remove_wf : forall s l1 r l2, wf s (l1 ++ r :: l2) -> l1 ++ l2 <> [] ->
  wf (remove true s r) (l1 ++ l2).
Proof.
  intros [h c] l1 r l2 (Hne & Hnd & Hch & Hr & Hh) Hne'. simpl fst in *; simpl snd in *.
  apply nodup_mid in Hnd. destruct Hnd as (Hr1 & Hr2 & Hnd).
  apply chain_seg in Hch. apply seg_app in Hch. destruct Hch as [H1 H2].
  simpl in H1, H2. destruct H2 as (Hpr & Hnr & H2).
  rewrite (remove_eq h c r (olast l1 None) (ohd l2 None) Hpr Hnr).
  2:{ intros p Hp. rewrite olast_none in Hp. apply last_opt_in in Hp. intros E; subst; contradiction. }
  2:{ intros n Hn. rewrite ohd_none in Hn. apply hd_opt_in in Hn. intros E; subst; contradiction. }
  unfold wf. simpl fst; simpl snd. split; [exact Hne'|]. split; [exact Hnd|]. split; [|split].
  - apply chain_seg.
    destruct (snoc_case l1) as [-> | (l1' & p & ->)]; destruct l2 as [|n l2'].
    + exfalso. apply Hne'. reflexivity.
    + simpl. simpl in Hnd. inversion Hnd as [|n' l' Hn Hnd2]; subst.
      apply (seg_set_prev_first h n None l2' (Some r) None); [exact Hn | exact H2].
    + rewrite olast_snoc. simpl ohd. rewrite app_nil_r in *.
      apply (proj1 (nodup_mid l1' p [])) in Hnd. destruct Hnd as (Hp1 & _ & _).
      apply (seg_set_next_last h p None l1' None (Some r)); [exact Hp1 | exact H1].
    + rewrite olast_snoc. simpl ohd.
      apply nodup_mid in Hnd. destruct Hnd as (Hn1 & Hn2 & Hnd).
      rewrite <- app_assoc in Hnd. simpl in Hnd. apply nodup_mid in Hnd. destruct Hnd as (Hp1 & Hp2 & Hnd).
      assert (Hpn : p <> n).
      { intros E. subst p. apply Hn1. apply in_or_app. right. left. reflexivity. }
      apply seg_app. split.
      * simpl ohd. apply seg_set_prev_out; [exact Hn1|].
        apply (seg_set_next_last h p (Some n) l1' None (Some r)); [exact Hp1 | exact H1].
      * rewrite olast_snoc.
        apply (seg_set_prev_first (set_next h p (Some n)) n (Some p) l2' (Some r) None); [exact Hn2|].
        apply seg_set_next_out; [|exact H2].
        simpl. intros [E|E]; [apply Hpn; symmetry; exact E | apply Hp2; exact E].
  - rewrite Hr. apply remove_root. exact Hr1.
  - rewrite Hh. apply remove_head. exact Hr2.
Qed.

(* ================= C07: the main theorems ================= *)
Lemma wf_singleton : forall h x, prev (h x) = None -> next (h x) = None -> wf (singleton h x) [x].
Proof.
  intros h x Hp Hn. unfold wf, singleton. simpl.
  split; [discriminate|]. split.
  - constructor; [simpl; tauto | constructor].
  - split; [tauto|]. split; reflexivity.
Qed.

Theorem step_wf : forall s l o, wf s l -> pre o l ->
  exists s', step_ok s o = Some s' /\ wf s' (apply_list o l).
Proof.
  intros s l o Hwf Hpre. pose proof Hwf as (Hne & Hnd & _ & Hr & Hh).
  destruct o as [x|x|b x|a x|a]; simpl in Hpre; unfold step_ok, step; simpl apply_list.
  - (* prepend *)
    destruct l as [|r l']; [congruence|]. simpl in Hr. unfold prepend. rewrite Hr.
    eexists. split; [reflexivity|]. apply (add_before_wf s [] r l' x Hwf Hpre).
  - (* append *)
    destruct (snoc_case l) as [E | (l' & z & E)]; [congruence|]. subst l.
    rewrite last_opt_snoc in Hh. unfold append. rewrite Hh.
    destruct (add_after_wf s l' z [] x Hwf Hpre) as (s' & Hs' & Hwf').
    exists s'. split; [exact Hs'|]. rewrite <- app_assoc. exact Hwf'.
  - (* add_before *)
    destruct Hpre as [Hb Hx]. destruct (in_split b l Hb) as (l1 & l2 & E). subst l.
    apply nodup_mid in Hnd. destruct Hnd as (Hb1 & _ & _).
    rewrite insert_before_split by exact Hb1.
    eexists. split; [reflexivity|]. apply add_before_wf; assumption.
  - (* add_after *)
    destruct Hpre as [Ha Hx]. destruct (in_split a l Ha) as (l1 & l2 & E). subst l.
    apply nodup_mid in Hnd. destruct Hnd as (Ha1 & _ & _).
    rewrite insert_after_split by exact Ha1.
    apply add_after_wf; assumption.
  - (* remove *)
    destruct Hpre as [Ha Hla]. destruct (in_split a l Ha) as (l1 & l2 & E). subst l.
    apply nodup_mid in Hnd. destruct Hnd as (Ha1 & _ & _).
    rewrite remove_elt_split by exact Ha1.
    eexists. split; [reflexivity|]. apply remove_wf; [exact Hwf|].
    intros E. apply app_eq_nil in E. destruct E as [E1 E2]. subst l1 l2. apply Hla. reflexivity.
Qed.

Theorem run_wf : forall ops s l, wf s l -> pre_all ops l ->
  exists s', run s ops = Some s' /\ wf s' (fold_left (fun l o => apply_list o l) ops l).
Proof.
  intros ops. induction ops as [|o ops IH]; intros s l Hwf Hpre; simpl in *.
  - exists s. split; [reflexivity | exact Hwf].
  - destruct Hpre as [Hp Hrest].
    destruct (step_wf s l o Hwf Hp) as (s1 & Hs1 & Hwf1). rewrite Hs1.
    apply IH; assumption.
Qed.

Lemma walk_next_seg : forall h l p fuel, seg h p l None -> length l <= fuel ->
  walk next h (hd_opt l) fuel = l.
Proof.
  intros h l. induction l as [|a l IH]; intros p fuel Hs Hlen; simpl in *.
  - destruct fuel; reflexivity.
  - destruct fuel as [|k]; [lia|]. destruct Hs as (Hp & Hn & Hs). simpl.
    rewrite Hn, ohd_none. f_equal. apply (IH (Some a)); [exact Hs | lia].
Qed.

Lemma walk_prev_seg : forall h l q fuel, seg h None l q -> length l <= fuel ->
  walk prev h (last_opt l) fuel = rev l.
Proof.
  intros h l. induction l as [|a l IH] using rev_ind; intros q fuel Hs Hlen.
  - simpl. destruct fuel; reflexivity.
  - rewrite last_opt_snoc, rev_unit. rewrite app_length in Hlen. simpl in Hlen.
    destruct fuel as [|k]; [lia|]. simpl.
    apply seg_app in Hs. destruct Hs as [H1 H2]. simpl in H1, H2. destruct H2 as (Hp & _ & _).
    rewrite Hp, olast_none. f_equal. apply (IH (Some a)); [exact H1 | lia].
Qed.

Theorem wf_iter : forall s l fuel, wf s l -> length l <= fuel -> iter s fuel = l.
Proof.
  intros [h c] l fuel (Hne & Hnd & Hch & Hr & Hh) Hlen. unfold iter. simpl fst in *; simpl snd in *.
  rewrite Hr. apply chain_seg in Hch. apply (walk_next_seg h l None fuel Hch Hlen).
Qed.

Theorem wf_iter_back : forall s l fuel, wf s l -> length l <= fuel -> iter_back s fuel = rev l.
Proof.
  intros [h c] l fuel (Hne & Hnd & Hch & Hr & Hh) Hlen. unfold iter_back. simpl fst in *; simpl snd in *.
  rewrite Hh. apply chain_seg in Hch. apply (walk_prev_seg h l None fuel Hch Hlen).
Qed.

Theorem wf_ends : forall s l, wf s l ->
  exists a z, root (snd s) = Some a /\ head (snd s) = Some z /\ hd_opt l = Some a /\ last_opt l = Some z /\
              prev (fst s a) = None /\ next (fst s z) = None.
Proof.
  intros [h c] l (Hne & Hnd & Hch & Hr & Hh). simpl fst in *; simpl snd in *.
  apply chain_seg in Hch.
  destruct l as [|a l']; [congruence|].
  assert (Hpa : prev (h a) = None) by (simpl in Hch; tauto).
  assert (Hha : hd_opt (a :: l') = Some a) by reflexivity.
  destruct (snoc_case (a :: l')) as [E | (l'' & z & E)]; [discriminate|].
  rewrite E in Hch, Hh. rewrite E. rewrite last_opt_snoc in *.
  apply seg_app in Hch. destruct Hch as [_ H2]. simpl in H2. destruct H2 as (_ & Hnz & _).
  exists a, z. rewrite <- E. tauto.
Qed.

(* every member's links are exactly its list neighbours *)
Theorem wf_links : forall s l1 a l2, wf s (l1 ++ a :: l2) ->
  prev (fst s a) = last_opt l1 /\ next (fst s a) = hd_opt l2.
Proof.
  intros [h c] l1 a l2 (Hne & Hnd & Hch & Hr & Hh). simpl fst in *.
  apply chain_seg in Hch. apply seg_app in Hch. destruct Hch as [_ H2]. simpl in H2.
  destruct H2 as (Hp & Hn & _). rewrite olast_none in Hp. rewrite ohd_none in Hn. tauto.
Qed.

(* ================= C15: equality ================= *)
Lemma forall2_length : forall (A B : Type) (R : A -> B -> Prop) xs ys,
  Forall2 R xs ys -> length xs = length ys.
Proof.
  intros A B R xs ys H. induction H as [|x y xs ys Hxy Hrest IH]; simpl; [reflexivity | f_equal; exact IH].
Qed.

Section Eq.
  Variable sub : nat -> nat -> bool.
  Hypothesis sub_refl : forall c, sub c c = true.
  Hypothesis sub_antisym : forall c d, sub c d = true -> sub d c = true -> c = d.

  Theorem py_eq_spec : forall a b, py_eq sub a b = Nat.eqb (fst a) (fst b) && Z.eqb (snd a) (snd b).
  Proof.
    intros [ca da] [cb db]. unfold py_eq, meth_eq. simpl fst; simpl snd.
    destruct (Nat.eqb_spec ca cb) as [E|E].
    - subst cb. rewrite sub_refl. simpl. apply Z.eqb_sym.
    - simpl negb. rewrite andb_true_r. rewrite andb_false_l.
      destruct (sub cb ca) eqn:Hba.
      + destruct (sub ca cb) eqn:Hab.
        * exfalso. apply E. apply sub_antisym; assumption.
        * reflexivity.
      + reflexivity.
  Qed.

  Theorem py_eq_sym : forall a b, py_eq sub a b = py_eq sub b a.
  Proof.
    intros a b. rewrite !py_eq_spec.
    rewrite (Nat.eqb_sym (fst a) (fst b)), (Z.eqb_sym (snd a) (snd b)). reflexivity.
  Qed.

  Lemma all_eq_spec : forall xs ys, length xs = length ys ->
    (all_eq sub xs ys = true <-> Forall2 (fun a b => py_eq sub a b = true) xs ys).
  Proof.
    intros xs. induction xs as [|x xs IH]; intros ys Hlen; destruct ys as [|y ys]; simpl in *;
      try discriminate.
    - split; intros _; [constructor | reflexivity].
    - unfold py_ne. destruct (py_eq sub x y) eqn:He; simpl.
      + split.
        * intros H. constructor; [exact He|]. apply IH; [lia | exact H].
        * intros H. inversion H as [|x' y' xs' ys' H1 H2]; subst. apply IH; [lia | exact H2].
      + split; [discriminate|].
        intros H. inversion H as [|x' y' xs' ys' H1 H2]; subst. congruence.
  Qed.

  Theorem cont_eq_spec : forall xs ys,
    cont_eq sub xs ys = true <-> Forall2 (fun a b => py_eq sub a b = true) xs ys.
  Proof.
    intros xs ys. unfold cont_eq. destruct (Nat.eqb_spec (length xs) (length ys)) as [E|E]; simpl.
    - apply all_eq_spec. exact E.
    - split; [discriminate|]. intros H. exfalso. apply E. apply (forall2_length _ _ _ _ _ H).
  Qed.

  Theorem cont_eq_refl : forall xs, cont_eq sub xs xs = true.
  Proof.
    intros xs. apply cont_eq_spec. induction xs as [|x xs IH]; constructor; [|exact IH].
    rewrite py_eq_spec, Nat.eqb_refl, Z.eqb_refl. reflexivity.
  Qed.

  Lemma all_eq_sym : forall xs ys, all_eq sub xs ys = all_eq sub ys xs.
  Proof.
    intros xs. induction xs as [|x xs IH]; intros ys; destruct ys as [|y ys]; simpl; try reflexivity.
    unfold py_ne. rewrite (py_eq_sym x y). destruct (negb (py_eq sub y x)); [reflexivity | apply IH].
  Qed.

  Theorem cont_eq_sym : forall xs ys, cont_eq sub xs ys = cont_eq sub ys xs.
  Proof.
    intros xs ys. unfold cont_eq. rewrite (Nat.eqb_sym (length xs) (length ys)).
    destruct (negb (Nat.eqb (length ys) (length xs))); [reflexivity | apply all_eq_sym].
  Qed.

  Theorem cont_eq_prefix : forall xs z r,
    cont_eq sub xs (xs ++ z :: r) = false /\ cont_eq sub (xs ++ z :: r) xs = false.
  Proof.
    intros xs z r. unfold cont_eq. rewrite app_length. simpl length.
    assert (E1 : Nat.eqb (length xs) (length xs + S (length r)) = false) by (apply Nat.eqb_neq; lia).
    assert (E2 : Nat.eqb (length xs + S (length r)) (length xs) = false) by (apply Nat.eqb_neq; lia).
    rewrite E1, E2. split; reflexivity.
  Qed.
End Eq.

(* ================= C08: queries and bulk removal ================= *)
Lemma filter_all : forall (f : nat -> bool) l, (forall x, In x l -> f x = true) -> filter f l = l.
Proof.
  intros f l. induction l as [|a l IH]; intros H; simpl.
  - reflexivity.
  - rewrite (H a (or_introl eq_refl)). f_equal. apply IH. intros x Hx. apply H. right. exact Hx.
Qed.

Lemma filter_ext_on : forall (f g : nat -> bool) l,
  (forall x, In x l -> f x = g x) -> filter f l = filter g l.
Proof.
  intros f g l. induction l as [|a l IH]; intros H; simpl.
  - reflexivity.
  - rewrite (H a (or_introl eq_refl)).
    rewrite IH by (intros x Hx; apply H; right; exact Hx). reflexivity.
Qed.

Lemma filter_filter_and : forall (f g : nat -> bool) l,
  filter g (filter f l) = filter (fun x => f x && g x) l.
Proof.
  intros f g l. induction l as [|a l IH]; simpl.
  - reflexivity.
  - destruct (f a) eqn:Ef; simpl.
    + rewrite IH. reflexivity.
    + exact IH.
Qed.

Lemma nodup_filter : forall (f : nat -> bool) l, NoDup l -> NoDup (filter f l).
Proof.
  intros f l H. induction H as [|a l Ha Hnd IH]; simpl.
  - constructor.
  - destruct (f a); [|exact IH]. constructor; [|exact IH].
    intros Hin. apply filter_In in Hin. apply Ha. tauto.
Qed.

Lemma matching_filter : forall isinst attr l t kw,
  matching isinst attr l t kw = filter (fun r => isinst r t && meets attr kw r) l.
Proof. intros isinst attr l t kw. unfold matching, of_type. apply filter_filter_and. Qed.

(* pure facts about the specification list *)
Theorem of_type_spec : forall isinst l t r, In r (of_type isinst l t) <-> In r l /\ isinst r t = true.
Proof. intros isinst l t r. unfold of_type. rewrite filter_In. tauto. Qed.

Theorem matching_spec : forall isinst attr l t kw r,
  In r (matching isinst attr l t kw) <-> In r l /\ isinst r t = true /\ meets attr kw r = true.
Proof. intros isinst attr l t kw r. unfold matching, of_type. rewrite !filter_In. tauto. Qed.

(* when exactly one member passes [g], removing it is a filter (no NoDup needed: a second
   occurrence would pass [g] as well) *)
Lemma filter_one_remove : forall (g : nat -> bool) l r, filter g l = [r] ->
  remove_elt r l = filter (fun y => negb (Nat.eqb y r)) l.
Proof.
  intros g l r. induction l as [|a l IH]; simpl; intros H.
  - discriminate.
  - assert (Hgr : g r = true).
    { assert (Hin : In r (filter g (a :: l))) by (simpl; rewrite H; left; reflexivity).
      apply filter_In in Hin. tauto. }
    destruct (g a) eqn:Ega.
    + inversion H as [[Ha Hl]]. subst a. rewrite Nat.eqb_refl. simpl.
      symmetry. apply filter_all. intros x Hx.
      destruct (Nat.eqb_spec x r) as [E|E]; [|reflexivity].
      exfalso. subst x.
      assert (Hin : In r (filter g l)) by (apply filter_In; tauto).
      rewrite Hl in Hin. exact Hin.
    + destruct (Nat.eqb_spec a r) as [E|E]; [congruence|]. simpl. f_equal. apply IH. exact H.
Qed.

Lemma remove_elt_nodup_filter : forall l r, NoDup l ->
  remove_elt r l = filter (fun y => negb (Nat.eqb y r)) l.
Proof.
  intros l r H. induction H as [|a l Ha Hnd IH]; simpl.
  - reflexivity.
  - destruct (Nat.eqb_spec a r) as [E|E]; simpl.
    + subst a. symmetry. apply filter_all. intros x Hx.
      destruct (Nat.eqb_spec x r) as [E|E]; [subst; contradiction | reflexivity].
    + f_equal. exact IH.
Qed.

Theorem remove_spec_is_filter : forall isinst attr l t kw,
  exists f, remove_of_type_spec isinst attr l t kw = filter f l /\
            (forall r, In r l -> (isinst r t && meets attr kw r) = false -> f r = true).
Proof.
  intros isinst attr l t kw. unfold remove_of_type_spec. rewrite matching_filter.
  destruct (filter (fun r => isinst r t && meets attr kw r) l) as [|r1 [|r2 rs]] eqn:Hm.
  - exists (fun _ => true). split; [|reflexivity]. symmetry. apply filter_all. reflexivity.
  - exists (fun y => negb (Nat.eqb y r1)). split.
    + apply (filter_one_remove _ l r1 Hm).
    + intros r Hin Hg.
      assert (Hin1 : In r1 (filter (fun r => isinst r t && meets attr kw r) l))
        by (rewrite Hm; left; reflexivity).
      apply filter_In in Hin1. destruct Hin1 as [_ Hg1].
      destruct (Nat.eqb_spec r r1) as [E|E]; [|reflexivity]. subst r. congruence.
  - destruct l as [|r0 l'].
    + exists (fun _ => true). split; [reflexivity|]. intros r Hin. contradiction.
    + exists (fun r => negb (isinst r t && meets attr kw r) || Nat.eqb r r0).
      split; [reflexivity|]. intros r Hin Hg. rewrite Hg. reflexivity.
Qed.

Theorem remove_spec_no_match_left : forall isinst attr l t kw r, NoDup l ->
  In r (remove_of_type_spec isinst attr l t kw) -> isinst r t = true -> meets attr kw r = true ->
  hd_opt l = Some r.
Proof.
  intros isinst attr l t kw r Hnd Hin Hi Hme. unfold remove_of_type_spec in Hin.
  assert (Hmatch : In r l -> In r (matching isinst attr l t kw)).
  { intros H. apply matching_spec. tauto. }
  destruct (matching isinst attr l t kw) as [|r1 [|r2 rs]] eqn:Hm.
  - exfalso. exact (Hmatch Hin).
  - exfalso. rewrite (remove_elt_nodup_filter l r1 Hnd) in Hin. apply filter_In in Hin.
    destruct Hin as [Hin Hne]. destruct (Hmatch Hin) as [E|[]]. subst r1.
    rewrite Nat.eqb_refl in Hne. discriminate.
  - destruct l as [|r0 l']; [contradiction|].
    apply filter_In in Hin. destruct Hin as [_ Hf]. rewrite Hi, Hme in Hf. simpl in Hf.
    apply Nat.eqb_eq in Hf. subst r0. reflexivity.
Qed.

(* the bulk-removal loop: every snapshot element except the (fixed) root is unlinked *)
Lemma fold_remove_wf : forall rs s r0 m,
  wf s (r0 :: m) -> NoDup rs -> (forall r, In r rs -> In r (r0 :: m)) ->
  wf (fold_left (fun s r => if is_end Nat.eqb (root (snd s)) r then s else remove true s r) rs s)
     (r0 :: filter (fun y => negb (existsb (Nat.eqb y) rs)) m).
Proof.
  intros rs. induction rs as [|r rs IH]; intros s r0 m Hwf Hnd Hin; simpl.
  - rewrite filter_all by reflexivity. exact Hwf.
  - pose proof Hwf as (_ & Hndm & _ & Hroot & _). simpl in Hroot. rewrite Hroot. unfold is_end.
    inversion Hnd as [|r' rs' Hr Hnd']; subst.
    inversion Hndm as [|r0' m' Hr0 Hndm']; subst.
    destruct (Nat.eqb_spec r r0) as [E|E].
    + subst r.
      rewrite (filter_ext_on (fun y => negb (Nat.eqb y r0 || existsb (Nat.eqb y) rs))
                             (fun y => negb (existsb (Nat.eqb y) rs)) m).
      * apply IH; [exact Hwf | exact Hnd' |]. intros x Hx. apply Hin. right. exact Hx.
      * intros x Hx. destruct (Nat.eqb_spec x r0) as [E|E]; [subst; contradiction | reflexivity].
    + assert (Hrm : In r m).
      { destruct (Hin r (or_introl eq_refl)) as [E'|H]; [congruence | exact H]. }
      destruct (in_split r m Hrm) as (m1 & m2 & Em). subst m.
      apply nodup_mid in Hndm'. destruct Hndm' as (Hr1 & Hr2 & Hnd12).
      assert (Hwf' : wf (remove true s r) (r0 :: m1 ++ m2)).
      { apply (remove_wf s (r0 :: m1) r m2 Hwf). discriminate. }
      rewrite filter_app. simpl. rewrite Nat.eqb_refl. simpl.
      rewrite (filter_ext_on (fun y => negb (Nat.eqb y r || existsb (Nat.eqb y) rs))
                             (fun y => negb (existsb (Nat.eqb y) rs)) m1).
      2:{ intros x Hx. destruct (Nat.eqb_spec x r) as [E'|E']; [subst; contradiction | reflexivity]. }
      rewrite (filter_ext_on (fun y => negb (Nat.eqb y r || existsb (Nat.eqb y) rs))
                             (fun y => negb (existsb (Nat.eqb y) rs)) m2).
      2:{ intros x Hx. destruct (Nat.eqb_spec x r) as [E'|E']; [subst; contradiction | reflexivity]. }
      rewrite <- filter_app.
      apply IH; [exact Hwf' | exact Hnd' |].
      intros x Hx. assert (Hxr : x <> r) by (intros E'; subst; contradiction).
      destruct (Hin x (or_intror Hx)) as [E'|H]; [left; exact E'|]. right.
      apply in_app_or in H. apply in_or_app. destruct H as [H|[H|H]]; [left; exact H | congruence | right; exact H].
Qed.

(* the concrete bulk removal refines the specification (repaired code: identity, remove moves ends),
   provided the whole container is not emptied *)
Theorem remove_of_type_wf : forall isinst attr s l fuel t kw,
  wf s l -> length l <= fuel ->
  remove_of_type_spec isinst attr l t kw <> [] ->
  wf (remove_of_type isinst attr Nat.eqb true s fuel t kw) (remove_of_type_spec isinst attr l t kw).
Proof.
  intros isinst attr s l fuel t kw Hwf Hlen Hne.
  unfold remove_of_type, get_of_type, remove_of_type_spec in *.
  rewrite (wf_iter s l fuel Hwf Hlen).
  pose proof Hwf as (Hlne & Hnd & _).
  destruct (matching isinst attr l t kw) as [|r1 [|r2 rs]] eqn:Hm.
  - exact Hwf.
  - assert (Hin : In r1 l).
    { assert (H : In r1 (matching isinst attr l t kw)) by (rewrite Hm; left; reflexivity).
      apply matching_spec in H. tauto. }
    destruct (in_split r1 l Hin) as (l1 & l2 & E). subst l.
    apply nodup_mid in Hnd. destruct Hnd as (H1 & _ & _).
    rewrite remove_elt_split in * by exact H1.
    apply remove_wf; assumption.
  - destruct l as [|r0 l']; [congruence|].
    inversion Hnd as [|r0' l'' Hr0 Hnd']; subst.
    assert (Hmem : forall y, In y l' ->
              existsb (Nat.eqb y) (r1 :: r2 :: rs) = isinst y t && meets attr kw y).
    { intros y Hy. apply eq_true_iff_eq. rewrite existsb_exists. rewrite andb_true_iff. split.
      - intros (z & Hz & E). apply Nat.eqb_eq in E. subst z. rewrite <- Hm in Hz.
        apply matching_spec in Hz. tauto.
      - intros [Hi Hme]. exists y. split; [|apply Nat.eqb_refl].
        rewrite <- Hm. apply matching_spec. split; [right; exact Hy | tauto]. }
    assert (Hspec : filter (fun r => negb (isinst r t && meets attr kw r) || Nat.eqb r r0) (r0 :: l')
                    = r0 :: filter (fun y => negb (existsb (Nat.eqb y) (r1 :: r2 :: rs))) l').
    { simpl filter at 1. rewrite Nat.eqb_refl, orb_true_r. f_equal.
      apply filter_ext_on. intros y Hy. rewrite (Hmem y Hy).
      destruct (Nat.eqb_spec y r0) as [E|E]; [subst; contradiction|]. apply orb_false_r. }
    rewrite Hspec.
    apply fold_remove_wf; [exact Hwf | |].
    + rewrite <- Hm. rewrite matching_filter. apply nodup_filter. constructor; assumption.
    + intros r Hr. rewrite <- Hm in Hr. apply matching_spec in Hr. tauto.
Qed.

Print Assumptions wf_singleton.
Print Assumptions step_wf.
Print Assumptions run_wf.
Print Assumptions wf_iter.
Print Assumptions wf_iter_back.
Print Assumptions wf_ends.
Print Assumptions wf_links.
Print Assumptions of_type_spec.
Print Assumptions matching_spec.
Print Assumptions remove_spec_is_filter.
Print Assumptions remove_spec_no_match_left.
Print Assumptions remove_of_type_wf.
Print Assumptions py_eq_spec.
Print Assumptions py_eq_sym.
Print Assumptions cont_eq_spec.
Print Assumptions cont_eq_refl.
Print Assumptions cont_eq_sym.
Print Assumptions cont_eq_prefix.
