(* C14 — No hidden sharing: objects never change as a side effect of other objects. Statements only.
   Model/World.v: Python objects with identity are indices into heaps (Line objects shared at class level, list
   objects, containers, files); [stepR] is one framework call or user mutation of the repaired code. *)
From Coq Require Import String ZArith NArith List Bool Arith.
From Coq Require Import Floats.SpecFloat.
From Cfi Require Import Glue.Sx Py.PyStr Py.PyNum Py.PyBits Py.PyDate Model.Field Model.Line Model.LineRun Model.World.
From Cfi Require Import Proofs.FieldProofs Proofs.LineProofs Proofs.WorldProofs.
Import ListNotations.

(* separation invariant: every list object has exactly one owner (a register's data or a result handed to the user),
   every container exactly one file; it holds initially and is preserved by every operation, hence along every
   interleaving of any length *)
Theorem C14_inv : (forall ls, Sep (init ls)) /\ (forall w o, Sep w -> Sep (fst (stepR w o))) /\
  (forall ops ls, Sep (fold_left (fun w o => fst (stepR w o)) ops (init ls))).
Proof. split; [exact sep_init|split; [exact sep_step|exact sep_run]]. Qed.
Print Assumptions C14_inv.

(* frame: an operation that does not address an object (its own read, a user mutation of its own list, append/remove
   on its own file) leaves its observable data unchanged -- whatever else is constructed, read, written or mutated,
   including registers of the same class that share the Line and Field objects *)
Theorem C14_frame_register : forall w o r, Sep w -> r < length (regs w) -> ~ touches_reg w o r ->
  obs_reg (fst (stepR w o)) r = obs_reg w r.
Proof. exact frame_register. Qed.
Print Assumptions C14_frame_register.

Theorem C14_frame_result : forall w o k, Sep w -> k < length (results w) -> ~ touches_result w o k ->
  obs_result (fst (stepR w o)) k = obs_result w k.
Proof. exact frame_result. Qed.
Print Assumptions C14_frame_result.

Theorem C14_frame_file : forall w o f, Sep w -> f < length (files w) -> ~ touches_file w o f ->
  obs_file (fst (stepR w o)) f = obs_file w f.
Proof. exact frame_file. Qed.
Print Assumptions C14_frame_file.

(* a read installs a fresh list holding what the line layout reads from the text alone: independent of the slots
   other registers of the class left in the shared fields *)
Theorem C14_read_fresh : forall w r text ln l, Sep w -> nth_error (regs w) r = Some (ln, l) ->
  let w' := fst (stepR w (ORegRead r text)) in
  obs_reg w' r = snd (lo_read (get empty_line ln (lines w)) text) /\
  snd (get (0, 0) r (regs w')) = length (lists w) /\
  forall o2, same_config o2 (get empty_line ln (lines w)) -> snd (lo_read o2 text) = obs_reg w' r.
Proof. exact read_fresh. Qed.
Print Assumptions C14_read_fresh.

(* a write renders the register's own data (it loads them into the shared fields first) and changes no data *)
Theorem C14_write_own_data :
  (forall w r ln l o2, nth_error (regs w) r = Some (ln, l) ->
     same_config o2 (get empty_line ln (lines w)) -> length (lo_st o2) <= length (get [] l (lists w)) ->
     forallb (fun v => match v with VNone => true | _ => false end) (get [] l (lists w)) = false ->
     snd (stepR w (ORegWrite r)) = Some (snd (lo_write o2 (get [] l (lists w))))) /\
  (forall w r, let w' := fst (stepR w (ORegWrite r)) in
     lists w' = lists w /\ regs w' = regs w /\ results w' = results w /\ conts w' = conts w /\ files w' = files w).
Proof. split; [exact write_own_data|exact write_changes_nothing]. Qed.
Print Assumptions C14_write_own_data.

(* files constructed without arguments start with one fresh placeholder in a container of their own, like the result
   of reading empty content *)
Theorem C14_fresh_file : forall w, Sep w ->
  let w' := fst (stepR w ONewFile) in
  let f := length (files w) in
  length (files w') = S f /\ obs_file w' f = [next_elem w] /\
  (forall g, g < f -> get 0 g (files w') <> get 0 f (files w')) /\
  length (obs_file (fst (stepR w (OFileRead 0))) f) = 1.
Proof. exact fresh_file. Qed.
Print Assumptions C14_fresh_file.

(* the code as found: every File() shared the container built when the class was defined *)
Theorem C14_refuted_shared_default : forall ls,
  let w := fst (step false (fst (step false (init ls) ONewFile)) ONewFile) in
  get 0 0 (files w) = get 0 1 (files w) /\
  obs_file (fst (step false w (OAppend 0))) 1 <> obs_file w 1.
Proof. exact shared_default_as_found. Qed.
