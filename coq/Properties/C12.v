(* C12 — Block files: begin-pattern dispatch, full accounting, verbatim round trip. Statements only.
   Blocks are the raw blocks of the harness family (they store the text they consume: from the first line up to and
   including the first line where the end pattern is found, or the end of input; one-byte markers in binary). *)
From Coq Require Import String ZArith NArith List Bool Arith.
From Coq Require Import Floats.SpecFloat.
From Cfi Require Import Glue.Sx Py.PyStr Py.PyNum Py.PyBits Py.PyDate Py.PyRe Model.Field Model.Line Model.Reader.
From Cfi Require Import Proofs.ReaderProofs Proofs.ReProofs.
Import ListNotations.

(* reading any content terminates within fuel |content|+1 *)
Theorem C12_total : forall us sto bs s, exists es, read_blockfile us sto bs (S (length s)) s = Some es.
Proof. exact blockfile_total. Qed.
Print Assumptions C12_total.

(* no input is lost, duplicated or reordered, and writing reproduces the content exactly (text and binary) *)
Theorem C12_accounting : forall us sto bs fuel s es,
  read_blockfile us sto bs fuel s = Some es -> concat (map snd es) = s /\ write_raw es = s.
Proof. exact blockfile_accounting. Qed.
Print Assumptions C12_accounting.

Theorem C12_roundtrip : forall sto bs s, exists es,
  read_blockfile true sto bs (S (length s)) s = Some es /\ write_raw es = s.
Proof.
  intros sto bs s. destruct (blockfile_total true sto bs s) as [es H]. exists es. split; [exact H|].
  exact (proj2 (blockfile_accounting true sto bs _ s es H)).
Qed.
Print Assumptions C12_roundtrip.

(* dispatch: the elements are exactly what the specification relation [loop_rel] yields: at every region start the
   peeked data (first line in text storage, first byte in binary storage) is handed to the first declared block
   whose begin pattern is found in it (block_dispatch = find_idx), else to a default block of one line *)
Theorem C12_dispatch : forall sto bs fuel s es,
  read_blockfile true sto bs fuel s = Some es ->
  loop_rel nat (reg_peek sto 1) (block_dispatch true sto bs)
    (fun (i : nat) (s : str) => match sto with
                | Text => raw_block (pat_search (b_end (nth_block bs i))) s
                | Binary => match s with
                            | [] => ([], [])
                            | b :: r => let (c, rest) := raw_bytes_fuel (S (length r)) (pat_search (b_end (nth_block bs i))) r in
                                        (b :: c, rest)
                            end
                end) readline s es.
Proof. exact blockfile_dispatch. Qed.
Print Assumptions C12_dispatch.

Theorem C12_first_match : forall sto bs p i,
  block_dispatch true sto bs p = Some i <->
  exists k b, i = 0 + k /\ nth_error bs k = Some b /\ pat_search (b_begin b) p = true /\
              forall j c, j < k -> nth_error bs j = Some c -> pat_search (b_begin c) p = false.
Proof.
  intros sto bs p i. unfold block_dispatch.
  destruct sto; exact (find_idx_spec (fun b => pat_search (b_begin b) p) bs 0 i).
Qed.
Print Assumptions C12_first_match.

(* a default block holds exactly one line *)
Theorem C12_default_one_line : forall s l rest, readline s = (l, rest) ->
  s = l ++ rest /\ ((exists b, l = b ++ [NL] /\ ~ In NL b) \/ (~ In NL l /\ rest = [])).
Proof. intros s l rest H. split; [exact (readline_split s l rest H)|exact (readline_shape s l rest H)]. Qed.
Print Assumptions C12_default_one_line.

(* the code as found never recognised a block in binary storage *)
Theorem C12_refuted_binary_dispatch : forall bs fuel s es,
  read_blockfile false Binary bs fuel s = Some es -> Forall (fun e => fst e = None) es.
Proof. exact blockfile_binary_as_found. Qed.

(* "found in the line": begin and end patterns are regular expressions (literals, classes, . \s \d, ^ $, concatenation,
   alternation, * + ? {m,n}); pat_search decides exactly whether SOME stretch line[i:j] is matched (M is the textbook
   denotational semantics, Proofs/ReProofs.v) -- for every expression and every line, nested stars included *)
Theorem C12_found : forall p line, pat_search p line = true <-> exists i j, i <= List.length line /\ M line p i j.
Proof. exact re_search_spec. Qed.
Print Assumptions C12_found.

(* the literal-only pattern language of the earlier model is an instance: substring search, prefix test, disjunction *)
Theorem C12_found_literal : forall l line, pat_search (re_lit l) line = contains l line.
Proof. exact re_search_lit. Qed.
Print Assumptions C12_found_literal.
Theorem C12_found_anchored_literal : forall l line, pat_search (RSeq RBol (re_lit l)) line = starts_with l line.
Proof. exact re_search_anchored_lit. Qed.
Print Assumptions C12_found_anchored_literal.
Theorem C12_found_alternation : forall a b line, pat_search (RAlt a b) line = pat_search a line || pat_search b line.
Proof. exact re_search_alt. Qed.
Print Assumptions C12_found_alternation.
(* the empty pattern -- the Block class default -- is found in every line *)
Theorem C12_found_empty : forall line, pat_search REps line = true.
Proof. exact re_search_eps. Qed.
Print Assumptions C12_found_empty.

(* the extent of a raw text block, line by line: it holds the lines from the region's first line up to and including the first
   line on which the end pattern is found -- no earlier line of the block contains it -- or every remaining line if none does;
   the rest of the input is handed back untouched *)
Theorem C12_block_extent : forall p s,
  raw_block (pat_search p) s =
    (concat (take_until (pat_search p) (split_lines s)), concat (drop_until (pat_search p) (split_lines s))) /\
  take_until (pat_search p) (split_lines s) ++ drop_until (pat_search p) (split_lines s) = split_lines s /\
  ((exists pre l, take_until (pat_search p) (split_lines s) = pre ++ [l] /\ pat_search p l = true /\
                  Forall (fun x => pat_search p x = false) pre) \/
   (take_until (pat_search p) (split_lines s) = split_lines s /\ Forall (fun x => pat_search p x = false) (split_lines s))).
Proof.
  intros p s. split; [apply raw_block_spec|]. split; [apply take_drop_until|apply take_until_shape].
Qed.
Print Assumptions C12_block_extent.

(* the quantifiers mean what Python's mean: a* is any number of rounds of a, a{m,n} between m and n rounds (+ ? are a{1,}, a{0,1}) *)
Theorem C12_pattern_star : forall line a i j, M line (RStar a) i j <-> exists k, Mpow line a k i j.
Proof. exact re_star_spec. Qed.
Print Assumptions C12_pattern_star.
Theorem C12_pattern_repetition : forall line a m d i j,
  M line (re_rep a m d) i j <-> exists k, m <= k <= m + d /\ Mpow line a k i j.
Proof. exact re_rep_spec. Qed.
Print Assumptions C12_pattern_repetition.

(* end to end, in the vocabulary of the property: a region is handed to block type k iff k is the first declared type whose
   begin pattern denotes some stretch of the region's first line (first byte window in binary storage) *)
Definition denotes (p : pattern) (line : str) : Prop := exists i j, i <= List.length line /\ M line p i j.

Theorem C12_dispatch_denotation : forall sto bs line k,
  block_dispatch true sto bs line = Some k <->
  exists b, nth_error bs k = Some b /\ denotes (b_begin b) line /\
            forall j c, j < k -> nth_error bs j = Some c -> ~ denotes (b_begin c) line.
Proof.
  intros sto bs line k. rewrite C12_first_match. unfold denotes. split.
  - intros [k' [b [Hk [Hb [Hm Hearlier]]]]]. cbn in Hk. subst k'. exists b. split; [exact Hb|]. split.
    + apply C12_found. exact Hm.
    + intros j c Hj Hc Hd. apply C12_found in Hd. rewrite (Hearlier j c Hj Hc) in Hd. discriminate.
  - intros [b [Hb [Hd Hearlier]]]. exists k, b. split; [reflexivity|]. split; [exact Hb|]. split.
    + apply C12_found. exact Hd.
    + intros j c Hj Hc. destruct (pat_search (b_begin c) line) eqn:E; [|reflexivity].
      exfalso. apply (Hearlier j c Hj Hc). apply C12_found. exact E.
Qed.
Print Assumptions C12_dispatch_denotation.

Example C12_example_regex :
  let r := RSeq RBol (RSeq (RStar (RChr (CSpace false false))) (RSeq (re_lit (s2l "DADOS"%string)) (re_plus (RChr (CDigit false false))))) in
  pat_search r (s2l "  DADOS42 x"%string) = true /\ pat_search r (s2l "x DADOS42"%string) = false.
Proof. vm_compute. split; reflexivity. Qed.

Example C12_example :
  let bs := [ {| b_begin := RSeq RBol (re_lit (s2l "BEGIN"%string)); b_end := re_lit (s2l "END"%string) |} ] in
  read_blockfile true Text bs 60 (s2l "x"%string ++ [NL] ++ s2l "BEGIN a"%string ++ [NL] ++ s2l "b END"%string ++ [NL] ++ s2l "y"%string)
  = Some [ (None, s2l "x"%string ++ [NL]); (Some 0, s2l "BEGIN a"%string ++ [NL] ++ s2l "b END"%string ++ [NL]); (None, s2l "y"%string) ].
Proof. vm_compute. reflexivity. Qed.
