(* C07 — Linked containers stay a faithful ordered list under every operation history.
   Statements only. The model is Model/Dll.v ([step_ok] = the repaired code: end detection by
   identity, remove() moves root/head); elements are ids, so value-equal members are simply
   different ids and values cannot influence any statement below. *)
From Coq Require Import ZArith NArith List Bool Arith.
From Cfi Require Import Glue.Sx Model.Dll Proofs.DllProofs.
Import ListNotations.

(* [wf s l] (Proofs/DllProofs.v): l is non-empty and duplicate-free, every member's previous/next
   are exactly its neighbours in l (None at the ends), root is the first and head the last of l. *)

(* a container built from one fresh element represents the one-element list *)
Theorem C07_init : forall h x, prev (h x) = None -> next (h x) = None -> wf (singleton h x) [x].
Proof. exact wf_singleton. Qed.
Print Assumptions C07_init.

(* inductive step: every operation whose arguments are legal w.r.t. the list (targets are
   members, inserted elements are not members -- they may be previously removed elements with
   stale links --, the sole element is not removed) succeeds and yields a state that represents
   the list subjected to the same operation *)
Theorem C07_step : forall s l o, wf s l -> pre o l ->
  exists s', step_ok s o = Some s' /\ wf s' (apply_list o l).
Proof. exact step_wf. Qed.
Print Assumptions C07_step.

(* every history, of any length *)
Theorem C07_reachable : forall ops s l, wf s l -> pre_all ops l ->
  exists s', run s ops = Some s' /\ wf s' (fold_left (fun l o => apply_list o l) ops l).
Proof. exact run_wf. Qed.
Print Assumptions C07_reachable.

(* iteration yields exactly the list; hence len = length, and the walk terminates *)
Theorem C07_iter : forall s l fuel, wf s l -> length l <= fuel -> iter s fuel = l.
Proof. exact wf_iter. Qed.
Print Assumptions C07_iter.

(* walking predecessors from the last element visits the reverse *)
Theorem C07_iter_back : forall s l fuel, wf s l -> length l <= fuel -> iter_back s fuel = rev l.
Proof. exact wf_iter_back. Qed.
Print Assumptions C07_iter_back.

(* first/last agree with the list; the first has no predecessor, the last no successor *)
Theorem C07_ends : forall s l, wf s l ->
  exists a z, root (snd s) = Some a /\ head (snd s) = Some z /\ hd_opt l = Some a /\ last_opt l = Some z /\
              prev (fst s a) = None /\ next (fst s z) = None.
Proof. exact wf_ends. Qed.
Print Assumptions C07_ends.

(* every member's links are its list neighbours *)
Theorem C07_links : forall s l1 a l2, wf s (l1 ++ a :: l2) ->
  prev (fst s a) = last_opt l1 /\ next (fst s a) = hd_opt l2.
Proof. exact wf_links. Qed.
Print Assumptions C07_links.

(* the code as found does NOT satisfy the step theorem: remove() left root/head stale ... *)
Theorem C07_refuted_stale_ends :
  exists ops, pre_all ops [0] /\
    match fold_left (fun s o => match s with Some s => step Nat.eqb false s o | None => None end) ops
                    (Some (singleton init_heap 0)) with
    | Some s => iter s 5 <> fold_left (fun l o => apply_list o l) ops [0]
    | None => True
    end.
Proof.
  exists [OAppend 1; ORemove 0]. split.
  - simpl. intuition congruence.
  - vm_compute. discriminate.
Qed.

(* ... and end detection by value equality corrupts the chain when a member is value-equal to an end *)
Theorem C07_refuted_value_equality :
  let same := fun a b : nat => true in   (* all members equal in value *)
  exists ops, pre_all ops [0] /\
    match fold_left (fun s o => match s with Some s => step same true s o | None => None end) ops
                    (Some (singleton init_heap 0)) with
    | Some s => iter s 5 <> fold_left (fun l o => apply_list o l) ops [0]
    | None => True
    end.
Proof.
  exists [OAppend 1; OAddBefore 1 2]. split.
  - simpl. intuition congruence.
  - vm_compute. discriminate.
Qed.

(* non-vacuity: a concrete reachable state *)
Example C07_example :
  exists s, run (singleton init_heap 0) [OAppend 1; OPrepend 2; ORemove 0; OAddAfter 2 0] = Some s
            /\ iter s 9 = [2; 0; 1].
Proof. eexists. split; vm_compute; reflexivity. Qed.
