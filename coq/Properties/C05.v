(* C05 — Register file data round trip: read(write(D)) equals D. Statements only. *)
From Coq Require Import String ZArith NArith List Bool Arith.
From Coq Require Import Floats.SpecFloat.
From Cfi Require Import Glue.Sx Py.PyStr Py.PyNum Py.PyBits Py.PyDate Model.Field Model.Line Model.Reader.
From Cfi Require Import Proofs.FieldProofs Proofs.LineProofs Proofs.ReaderProofs Proofs.RegProofs.
Import ListNotations.

(* [elem_roundtrips rs e] (Proofs/RegProofs.v) is the per-element premise "fitting, canonical data under unambiguous
   identifiers": a typed element with at least one non-missing value whose written text is one line that dispatches
   back to its own type and reads back its data; a default element is a line matching no identifier.
   For every register list and every sequence of such elements (interleaved with registers whose values are all
   missing, which vanish), writing and reading back returns exactly the non-vanishing elements, in order. *)
Theorem C05_roundtrip : forall fr fd ls rs D,
  Forall (fun e => vanishes e = true \/ elem_roundtrips rs e) D ->
  exists text, write_elems Text rs D = Some text /\
    option_map (map (to_elem Text rs)) (read_regfile fr fd Text ls rs (S (length text)) text)
      = Some (filter (fun e => negb (vanishes e)) D).
Proof. exact regfile_roundtrip. Qed.
Print Assumptions C05_roundtrip.

(* registers whose values are all missing produce no output at all *)
Theorem C05_empty_skipped : forall sto rs i d, all_none d = true -> write_elem sto rs (ETyped i d) = Some [].
Proof. exact write_elem_empty. Qed.
Print Assumptions C05_empty_skipped.

(* zero, the empty string and negative zero count as data: such a register is written as a line *)
Theorem C05_falsy_kept :
  (all_none [VInt 0%Z] = false /\ all_none [VStr []] = false /\ all_none [VFloat (S754_zero true)] = false) /\
  (forall rs i d text, all_none d = false -> r_delim (nth_reg rs i) = None ->
     write_elem Text rs (ETyped i d) = Some text -> exists body, text = body ++ [NL]).
Proof. split; [exact falsy_is_data|exact write_elem_nonempty]. Qed.
Print Assumptions C05_falsy_kept.

(* the dispatch premise is implied by a decidable condition on the definition: windows no wider than the writing
   type's and no earlier identifier occurring in its padded identifier *)
Theorem C05_dispatch_written : forall rs i text, i < length rs -> reg_wf (nth_reg rs i) ->
  (forall j, j < i -> r_digits (nth_reg rs j) <= r_digits (nth_reg rs i)) -> no_earlier_match rs i ->
  firstn (r_digits (nth_reg rs i)) text = ljust (r_digits (nth_reg rs i)) (r_ident (nth_reg rs i)) ->
  reg_dispatch rs text = Some i.
Proof. exact dispatch_written. Qed.
Print Assumptions C05_dispatch_written.
(* File-level equality of the two files is element-wise equality of the two sequences (C15_container). *)
