(* C09, continued — "every float [reads back] exactly as rounded to the field's IEEE width": the statements whose proofs
   go through the real numbers (Flocq). They depend on the standard library's real-number axioms (listed by
   Print Assumptions below: ClassicalDedekindReals.sig_not_dec, ClassicalDedekindReals.sig_forall_dec,
   FunctionalExtensionality.functional_extensionality_dep, Classical_Prop.classic); nothing is declared here.
   Statements only. *)
From Coq Require Import ZArith NArith List Bool Arith Reals.
From Coq Require Import Floats.SpecFloat.
From Flocq Require Import Core.Core IEEE754.BinarySingleNaN.
From Cfi Require Import Glue.Sx Py.PyBits.
From Cfi Require Import Proofs.BitsProofs Proofs.FloatBitsReal.
Import ListNotations.
Local Open Scope Z_scope.

(* the model's narrowing (what numpy does when a Python float is stored in a float16/32/64 array) IS IEEE-754
   round-to-nearest-even into the format; beyond the format's range it is the infinity of that sign *)
Theorem C09_narrowing_is_round_nearest_even : forall mw ew s m e, fmt_ok mw ew ->
  let x := S754_finite s m e in
  let r := round radix2 (FLT_exp (femin mw ew) (fprec mw)) ZnearestE (SF2R radix2 x) in
  ((Rabs r < bpow radix2 (femax ew))%R ->
     SF2R radix2 (sf_round mw ew x) = r /\
     SpecFloat.valid_binary (fprec mw) (femax ew) (sf_round mw ew x) = true /\
     is_finite_SF (sf_round mw ew x) = true /\ sign_SF (sf_round mw ew x) = s) /\
  (~ (Rabs r < bpow radix2 (femax ew))%R -> sf_round mw ew x = S754_infinity s).
Proof. exact sf_round_correct_fmt. Qed.
Print Assumptions C09_narrowing_is_round_nearest_even.

(* ... hence no value of the format is closer to x than what is stored *)
Theorem C09_narrowing_nearest : forall mw ew s m e (y : R), fmt_ok mw ew ->
  let x := S754_finite s m e in
  generic_format radix2 (FLT_exp (femin mw ew) (fprec mw)) y ->
  (Rabs (round radix2 (FLT_exp (femin mw ew) (fprec mw)) ZnearestE (SF2R radix2 x)) < bpow radix2 (femax ew))%R ->
  (Rabs (SF2R radix2 (sf_round mw ew x) - SF2R radix2 x) <= Rabs (y - SF2R radix2 x))%R.
Proof. exact sf_round_nearest_fmt. Qed.
Print Assumptions C09_narrowing_nearest.

(* widening a float16/float32 value to the Python float (binary64) is exact *)
Theorem C09_widening_exact : forall y,
  (SpecFloat.valid_binary 11 16 y = true \/ SpecFloat.valid_binary 24 128 y = true) ->
  is_finite_SF y = true ->
  SF2R radix2 (sf_round 52 11 y) = SF2R radix2 y /\
  SpecFloat.valid_binary 53 1024 (sf_round 52 11 y) = true /\
  is_finite_SF (sf_round 52 11 y) = true /\
  sign_SF (sf_round 52 11 y) = sign_SF y.
Proof. exact widen_exact. Qed.
Print Assumptions C09_widening_exact.

(* the bit-level codec is injective on the values of the format (closed: no real numbers involved) *)
Theorem C09_bits_of_value : forall mw ew z, fmt_wf mw ew ->
  SpecFloat.valid_binary (fprec mw) (femax ew) z = true -> is_nan_SF z = false ->
  sf_of_bits mw ew (bits_of_sf mw ew z) = z /\ 0 <= bits_of_sf mw ew z < 2 ^ (mw + ew + 1).
Proof. exact sf_of_bits_of_sf. Qed.
Print Assumptions C09_bits_of_value.

(* THE property clause: a finite float written to a 2-, 4- or 8-byte field and read back is the double whose value is x
   rounded to nearest-even in the field's IEEE format (binary16 / binary32 / binary64) *)
Theorem C09_float_reads_back_rounded : forall n mw ew x, width_fmt n mw ew -> is_finite_SF x = true ->
  let r := round radix2 (FLT_exp (femin mw ew) (fprec mw)) ZnearestE (SF2R radix2 x) in
  (Rabs r < bpow radix2 (femax ew))%R ->
  exists y, float_dec n (float_enc n x) = Some y /\ SF2R radix2 y = r /\
            SpecFloat.valid_binary 53 1024 y = true /\ is_finite_SF y = true /\
            (r <> 0%R -> sign_SF y = sign_SF x).
Proof. exact float_dec_enc. Qed.
Print Assumptions C09_float_reads_back_rounded.

(* beyond the format's range the field holds (and reads back) the infinity of that sign *)
Theorem C09_float_overflow : forall n mw ew s m e, width_fmt n mw ew ->
  let x := S754_finite s m e in
  let r := round radix2 (FLT_exp (femin mw ew) (fprec mw)) ZnearestE (SF2R radix2 x) in
  ~ (Rabs r < bpow radix2 (femax ew))%R ->
  float_dec n (float_enc n x) = Some (S754_infinity s).
Proof. exact float_dec_enc_overflow. Qed.
Print Assumptions C09_float_overflow.

(* 8-byte fields: every double (infinities included) reads back as itself *)
Theorem C09_float64_exact : forall x, SpecFloat.valid_binary 53 1024 x = true ->
  is_nan_SF x = false -> float_dec 8 (float_enc 8 x) = Some x.
Proof. exact float_dec_enc_64. Qed.
Print Assumptions C09_float64_exact.

(* 2- and 4-byte fields: a double that already is a value of the narrow format reads back with the same value *)
Theorem C09_float_exact_if_representable : forall n mw ew x, width_fmt n mw ew -> is_finite_SF x = true ->
  generic_format radix2 (FLT_exp (femin mw ew) (fprec mw)) (SF2R radix2 x) ->
  (Rabs (SF2R radix2 x) < bpow radix2 (femax ew))%R ->
  exists y, float_dec n (float_enc n x) = Some y /\ SF2R radix2 y = SF2R radix2 x.
Proof. exact float_dec_enc_exact. Qed.
Print Assumptions C09_float_exact_if_representable.

(* the hypotheses are satisfiable: 0.1 in a 2-byte field *)
Example C09_tenth_in_binary16 :
  float_dec 2 (float_enc 2 (S754_finite false 3602879701896397 (-55))) = Some (S754_finite false 7205759403792794 (-56) ) \/
  exists y, float_dec 2 (float_enc 2 (S754_finite false 3602879701896397 (-55))) = Some y /\ is_finite_SF y = true.
Proof. right. vm_compute. eexists. split; reflexivity. Qed.
