(* C11 — Delimited lines: token-wise round trip, no carry-over between lines. Statements only.
   The model is of the repaired code (a delimited read clears the field values first). *)
From Coq Require Import String ZArith NArith List Bool Arith.
From Coq Require Import Floats.SpecFloat.
From Cfi Require Import Glue.Sx Py.PyStr Py.PyNum Py.PyBits Py.PyDate Model.Field Model.Line.
From Cfi Require Import Proofs.FieldProofs Proofs.NumText Proofs.LineProofs.
Import ListNotations.

(* the written line is the blank-trimmed renderings (each field written alone at column 0) joined by the
   delimiter, plus a newline *)
Theorem C11_write_shape : forall st d vs st' text, write_delim st d vs = (st', Some text) ->
  exists toks, text = join d toks ++ [NL] /\
    Forall2 (fun fv t => exists r, render (rebase (fst fv)) (snd fv) = Some r /\ t = strip is_space (splice (rebase (fst fv)) r [])) st' toks.
Proof. exact write_delim_shape. Qed.
Print Assumptions C11_write_shape.

(* reading: field i gets the reading of the blank-trimmed token i if there is one, else a missing value;
   surplus tokens are ignored *)
Theorem C11_read_tokens : forall st d l,
  let toks := map (strip is_space) (split d l) in
  values_of (read_delim st d l) =
    map (fun i => match nth_error toks i with
                  | Some t => field_read (rebase (nth i (fields_of st) {| kind := KLit; size := 0; start := 0 |})) t
                  | None => VNone end) (seq 0 (length st)).
Proof. exact read_delim_spec. Qed.
Print Assumptions C11_read_tokens.

(* no carry-over: the values do not depend on what the field objects held before (previous lines) *)
Theorem C11_no_carry_over : forall st st2 d l, fields_of st = fields_of st2 ->
  values_of (read_delim st d l) = values_of (read_delim st2 d l).
Proof. exact read_delim_no_carry_over. Qed.
Print Assumptions C11_no_carry_over.

(* the tokenisation premise: for a one-character delimiter occurring in no token, split undoes join *)
Theorem C11_split_join : forall c toks, toks <> [] -> Forall (fun t => ~ In c t) toks ->
  split [c] (join [c] toks) = toks.
Proof. exact split_join_char. Qed.
Print Assumptions C11_split_join.

(* the code as found did carry values over: reading "X" after a two-field line kept the second value *)
Theorem C11_refuted_carry_over :
  let st := [({| kind := KLit; size := 2; start := 0 |}, VStr (s2l "X"%string)); ({| kind := KInt; size := 4; start := 2 |}, VInt 7)] in
  values_of (read_delim_gen false st [59%N] (s2l "X"%string)) = [VStr (s2l "X"%string); VInt 7] /\
  values_of (read_delim st [59%N] (s2l "X"%string)) = [VStr (s2l "X"%string); VNone].
Proof. vm_compute. split; reflexivity. Qed.

Example C11_example :
  let st := mk_state [ {| kind := KLit; size := 3; start := 5 |}; {| kind := KInt; size := 4; start := 0 |} ] in
  snd (write_delim st [59%N] [VStr (s2l "ab"%string); VInt 12]) = Some (s2l "ab;12"%string ++ [NL]) /\
  values_of (read_delim st [59%N] (s2l " ab ; 12 ; zz"%string)) = [VStr (s2l "ab"%string); VInt 12].
Proof. vm_compute. split; reflexivity. Qed.
