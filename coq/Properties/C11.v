(* C11 — Delimited lines: token-wise round trip, no carry-over between lines. Statements only.
   The model is of the repaired code (a delimited read clears the field values first). *)
From Coq Require Import String ZArith NArith List Bool Arith.
From Coq Require Import Floats.SpecFloat.
From Cfi Require Import Glue.Sx Py.PyStr Py.PyNum Py.PyBits Py.PyDate Model.Field Model.Line.
From Cfi Require Import Proofs.FieldProofs Proofs.NumText Proofs.DateProofs Proofs.LineProofs Proofs.DelimProofs.
Import ListNotations.

(* the written line is the blank-trimmed renderings (each field written alone at column 0) joined by the
   delimiter, plus a newline *)
Theorem C11_write_shape : forall st d vs st' text, write_delim st d vs = (st', Some text) ->
  exists toks, text = join d toks ++ [NL] /\
    Forall2 (fun fv t => exists r, render (rebase (fst fv)) (snd fv) = Some r /\ t = strip is_space (splice (rebase (fst fv)) r [])) st' toks.
Proof. exact write_delim_shape. Qed.
Print Assumptions C11_write_shape.

(* reading: field i gets the reading of the blank-trimmed token i if there is one, else a missing value;
   surplus tokens are ignored *)
Theorem C11_read_tokens : forall st d l,
  let toks := map (strip is_space) (split d l) in
  values_of (read_delim st d l) =
    map (fun i => match nth_error toks i with
                  | Some t => field_read (rebase (nth i (fields_of st) {| kind := KLit; size := 0; start := 0 |})) t
                  | None => VNone end) (seq 0 (length st)).
Proof. exact read_delim_spec. Qed.
Print Assumptions C11_read_tokens.

(* no carry-over: the values do not depend on what the field objects held before (previous lines) *)
Theorem C11_no_carry_over : forall st st2 d l, fields_of st = fields_of st2 ->
  values_of (read_delim st d l) = values_of (read_delim st2 d l).
Proof. exact read_delim_no_carry_over. Qed.
Print Assumptions C11_no_carry_over.

(* the tokenisation premise: for a one-character delimiter occurring in no token, split undoes join *)
Theorem C11_split_join : forall c toks, toks <> [] -> Forall (fun t => ~ In c t) toks ->
  split [c] (join [c] toks) = toks.
Proof. exact split_join_char. Qed.
Print Assumptions C11_split_join.

(* [token_of f v] = the blank-trimmed rendering of v written alone at column 0; [read_token f t] = reading t with f
   re-based at column 0 (Proofs/DelimProofs.v).
   The composed round trip, for a one-character non-blank delimiter that occurs in no token: reading the written line
   returns, field by field, the reading of its own token -- whatever the reading line's slots held *)
Theorem C11_roundtrip : forall st c vs st' text st2,
  write_delim st [c] vs = (st', Some text) -> length vs = length st ->
  is_space c = false ->
  Forall (fun fv => exists t, token_of (fst fv) (snd fv) = Some t /\ ~ In c t) st' ->
  fields_of st2 = fields_of st ->
  values_of (read_delim st2 [c] text) =
    map (fun fv => match token_of (fst fv) (snd fv) with Some t => read_token (fst fv) t | None => VNone end) st'.
Proof. exact delim_roundtrip. Qed.
Print Assumptions C11_roundtrip.

(* and the reading of a token is the canonical value: integers unchanged, literals trimmed, missing -> None / "",
   dates at the format's resolution, F-notation floats = the reading of the padded rendering (C01_float_decimal) *)
Theorem C11_token_values :
  (forall f z, kind f = KInt -> fits (rebase f) (VInt z) = true ->
     forall t, token_of f (VInt z) = Some t -> read_token f t = VInt z) /\
  (forall f s, kind f = KLit -> fits (rebase f) (VStr s) = true ->
     forall t, token_of f (VStr s) = Some t -> read_token f t = VStr (strip is_space s)) /\
  (forall f v, missing v = true ->
     match kind f with KFloat _ _ _ sep => sep = [DOT] \/ sep = [44%N] | KDate fmts => Forall (fun fm => fm <> []) fmts | _ => True end ->
     forall t, token_of f v = Some t -> read_token f t = match kind f with KLit => VStr [] | _ => VNone end) /\
  (forall f dd up sep s m e, kind f = KFloat dd false up sep -> (sep = [DOT] \/ sep = [44%N]) ->
     fits (rebase f) (VFloat (S754_finite s m e)) = true ->
     forall t, token_of f (VFloat (S754_finite s m e)) = Some t ->
     read_token f t = reread (rebase f) (VFloat (S754_finite s m e))) /\
  (forall f fmt r d, kind f = KDate (fmt :: r) ->
     wf_fmt fmt -> dom_dt d -> valid_dt (trunc fmt d) = true -> strip is_space (strftime fmt d) = strftime fmt d ->
     fits (rebase f) (VDate d) = true ->
     forall t, token_of f (VDate d) = Some t -> read_token f t = VDate (trunc fmt d)).
Proof.
  split; [exact read_token_int|split; [exact read_token_lit|split; [exact read_token_missing|split;
    [exact read_token_float_fixed|exact read_token_date]]]].
Qed.
Print Assumptions C11_token_values.

(* a line with fewer tokens yields the readings of those tokens and missing values for the absent fields *)
Theorem C11_short_line : forall st c toks,
  is_space c = false -> toks <> [] -> Forall (fun t => ~ In c t /\ strip is_space t = t) toks ->
  values_of (read_delim st [c] (join [c] toks ++ [NL])) =
    map (fun i => match nth_error toks i with
                  | Some t => read_token (nth i (fields_of st) {| kind := KLit; size := 0; start := 0 |}) t
                  | None => VNone end) (seq 0 (length st)).
Proof. exact delim_short_line. Qed.
Print Assumptions C11_short_line.

(* the code as found did carry values over: reading "X" after a two-field line kept the second value *)
Theorem C11_refuted_carry_over :
  let st := [({| kind := KLit; size := 2; start := 0 |}, VStr (s2l "X"%string)); ({| kind := KInt; size := 4; start := 2 |}, VInt 7)] in
  values_of (read_delim_gen false st [59%N] (s2l "X"%string)) = [VStr (s2l "X"%string); VInt 7] /\
  values_of (read_delim st [59%N] (s2l "X"%string)) = [VStr (s2l "X"%string); VNone].
Proof. vm_compute. split; reflexivity. Qed.

Example C11_example :
  let st := mk_state [ {| kind := KLit; size := 3; start := 5 |}; {| kind := KInt; size := 4; start := 0 |} ] in
  snd (write_delim st [59%N] [VStr (s2l "ab"%string); VInt 12]) = Some (s2l "ab;12"%string ++ [NL]) /\
  values_of (read_delim st [59%N] (s2l " ab ; 12 ; zz"%string)) = [VStr (s2l "ab"%string); VInt 12].
Proof. vm_compute. split; reflexivity. Qed.
