(* C20 — Tabular view mirrors the registers of a type without aliasing them. Statements only (PARTIAL: a pandas
   DataFrame is abstracted to named columns of cells; dtype inference and pandas' null representation are observed by
   the correspondence check after null canonicalisation, not modelled). *)
From Coq Require Import String ZArith NArith List Bool Arith.
From Cfi Require Import Glue.Sx Model.Version Model.View Proofs.VersionProofs Proofs.ViewProofs.
Import ListNotations.

(* the user-defined properties: exactly the class's property names minus the framework's own, in sorted order *)
Theorem C20_columns : forall all fw,
  (forall n, In n (custom_properties all fw) <-> In n all /\ ~ In n fw) /\ sorted (custom_properties all fw).
Proof. intros all fw. split; [intro n; exact (custom_properties_spec all fw n)|exact (custom_properties_sorted all fw)]. Qed.
Print Assumptions C20_columns.

(* with at least one register of the type and at least one property: the columns are the type's properties and there
   is one row per register of the type in file order, each cell that register's property value *)
Theorem C20_rows : forall (cell : Type) isinst cols_of t (regs : list (reg cell)) r0 rest,
  of_type_regs cell isinst t regs = r0 :: rest -> cols_of (r_type r0) <> [] ->
  as_df isinst t cols_of regs =
    (cols_of (r_type r0), map (fun r => map (lookup_prop r) (cols_of (r_type r0))) (of_type_regs cell isinst t regs)).
Proof. exact as_df_rows. Qed.
Print Assumptions C20_rows.

Theorem C20_shape : forall (cell : Type) isinst cols_of t (regs : list (reg cell)) cols rows,
  as_df isinst t cols_of regs = (cols, rows) -> cols <> [] ->
  length rows = length (of_type_regs cell isinst t regs) /\ Forall (fun row => length row = length cols) rows.
Proof. exact as_df_shape. Qed.
Print Assumptions C20_shape.

(* no register of the type, or no property: the view is empty *)
Theorem C20_empty : forall (cell : Type) isinst cols_of t (regs : list (reg cell)),
  (of_type_regs cell isinst t regs = [] -> as_df isinst t cols_of regs = ([], [])) /\
  (forall r0 rest, of_type_regs cell isinst t regs = r0 :: rest -> cols_of (r_type r0) = [] ->
     as_df isinst t cols_of regs = ([], [])).
Proof. intros. split; [exact (as_df_empty cell isinst cols_of t regs)|exact (as_df_no_columns cell isinst cols_of t regs)]. Qed.
Print Assumptions C20_empty.
(* No aliasing: [as_df] returns a value computed from the registers; the registers are not part of it. That editing the
   real DataFrame leaves the registers unchanged is observed by the correspondence check. *)

Example C20_example :
  custom_properties (map s2l ["b"; "data"; "a"; "empty"]%string) framework_props = map s2l ["a"; "b"]%string.
Proof. vm_compute. reflexivity. Qed.
