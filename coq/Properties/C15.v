(* C15 — Equality is element-wise, symmetric and deterministic. Statements only. *)
From Coq Require Import ZArith NArith List Bool Arith.
From Cfi Require Import Glue.Sx Model.Dll Proofs.DllProofs.
Import ListNotations.

Section C15.
  (* issubclass on element classes: a reflexive, antisymmetric relation *)
  Variable sub : nat -> nat -> bool.
  Hypothesis sub_refl : forall c, sub c c = true.
  Hypothesis sub_antisym : forall c d, sub c d = true -> sub d c = true -> c = d.

  (* element equality, including Python's reflected-operand rule, is: same class and equal data *)
  Theorem C15_elem : forall a b, py_eq sub a b = Nat.eqb (fst a) (fst b) && Z.eqb (snd a) (snd b).
  Proof. exact (py_eq_spec sub sub_refl sub_antisym). Qed.

  Theorem C15_elem_sym : forall a b, py_eq sub a b = py_eq sub b a.
  Proof. exact (py_eq_sym sub sub_refl sub_antisym). Qed.

  (* container (hence file) equality: same length and pairwise equal *)
  Theorem C15_container : forall xs ys,
    cont_eq sub xs ys = true <-> Forall2 (fun a b => py_eq sub a b = true) xs ys.
  Proof. exact (cont_eq_spec sub). Qed.

  Theorem C15_refl : forall xs, cont_eq sub xs xs = true.
  Proof. exact (cont_eq_refl sub sub_refl sub_antisym). Qed.

  Theorem C15_sym : forall xs ys, cont_eq sub xs ys = cont_eq sub ys xs.
  Proof. exact (cont_eq_sym sub sub_refl sub_antisym). Qed.

  (* a proper prefix is never equal to the longer sequence, either way round *)
  Theorem C15_prefix : forall xs z r,
    cont_eq sub xs (xs ++ z :: r) = false /\ cont_eq sub (xs ++ z :: r) xs = false.
  Proof. exact (cont_eq_prefix sub). Qed.
End C15.
Print Assumptions C15_elem.
Print Assumptions C15_elem_sym.
Print Assumptions C15_container.
Print Assumptions C15_refl.
Print Assumptions C15_sym.
Print Assumptions C15_prefix.

(* non-vacuity: the subclass table used by the harness is reflexive and antisymmetric *)
Example C15_example :
  let sub := fun c d => Nat.eqb c d || (Nat.eqb c 1 && Nat.eqb d 0) in
  (forall c, sub c c = true) /\
  cont_eq sub [(0, 5%Z); (1, 6%Z)] [(0, 5%Z); (1, 6%Z)] = true /\
  cont_eq sub [(0, 5%Z)] [(1, 5%Z)] = false /\ cont_eq sub [(1, 5%Z)] [(0, 5%Z)] = false.
Proof. cbv zeta. split; [intro c; rewrite Nat.eqb_refl; reflexivity|vm_compute; repeat split; reflexivity]. Qed.
