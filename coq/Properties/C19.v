(* C19 — Version selection picks the latest declared version not after the request.
   Statements only; every proof is [exact <lemma from Proofs/>]. *)
From Coq Require Import String ZArith NArith List Bool Permutation.
Local Open Scope string_scope.
From Cfi Require Import Glue.Sx Model.Version Proofs.VersionProofs.
Import ListNotations.

(* greatest declared key <= v in code-point lexicographic order *)
Definition max_le (keys : list str) (v k : str) : Prop :=
  In k keys /\ str_leb k v = true /\
  forall k', In k' keys -> str_leb k' v = true -> str_leb k' k = true.

(* the key selected by the code is the greatest declared key <= v, and there is none exactly
   when no declared key is <= v *)
Theorem C19_max_le_spec : forall (keys : list str) (v : str),
  (forall k, closest keys v = Some k <-> max_le keys v k) /\
  (closest keys v = None <-> forall k, In k keys -> str_leb k v = false).
Proof. intros keys v. split; [intro k; exact (closest_some keys v k)|exact (closest_none keys v)]. Qed.
Print Assumptions C19_max_le_spec.

(* selecting v activates the list declared for that key; with no key <= v the active list stays *)
Theorem C19_select : forall (V : Type) (t : table V) (v : str) (active : V),
  (forall k, max_le (map fst t) v k -> exists r, lookup k t = Some r /\ set_version t v active = r) /\
  ((forall k, In k (map fst t) -> str_leb k v = false) -> set_version t v active = active).
Proof. exact set_version_spec. Qed.
Print Assumptions C19_select.

(* independent of the declaration order *)
Theorem C19_perm : forall (V : Type) (t t' : table V) (v : str) (active : V),
  Permutation t t' -> NoDup (map fst t) -> set_version t v active = set_version t' v active.
Proof. exact set_version_perm. Qed.
Print Assumptions C19_perm.

(* selecting on class c changes the active list only of classes whose attribute lookup passes
   through c (c itself and descendants without an own list) *)
Theorem C19_isolation : forall (V : Type) (w : world V) (c : nat) (v : str) (c' : nat),
  ~ In c (visited own_active w (length w) c') ->
  active_of (set_version_cls w c v) c' = active_of w c'.
Proof. exact set_version_cls_isolated. Qed.
Print Assumptions C19_isolation.

(* hence never of a parent (or of any class declared earlier, e.g. an elder sibling; a younger
   sibling does not visit c either since c is not among its ancestors) *)
Theorem C19_isolation_parent : forall (V : Type) (w : world V) (c : nat) (v : str) (c' : nat),
  wf_world V w -> c' < c -> active_of (set_version_cls w c v) c' = active_of w c'.
Proof. exact set_version_cls_parent. Qed.
Print Assumptions C19_isolation_parent.

(* non-vacuity: a concrete table and a class tree *)
Example C19_example :
  let t := [(s2l "v1", 1%Z); (s2l "v10", 10%Z); (s2l "v2", 2%Z)] in
  set_version t (s2l "v15") 0%Z = 10%Z /\ set_version t (s2l "v") 0%Z = 0%Z /\
  max_le (map fst t) (s2l "v15") (s2l "v10").
Proof.
  cbv zeta. split; [vm_compute; reflexivity|split; [vm_compute; reflexivity|]].
  unfold max_le. split; [vm_compute; tauto|split; [vm_compute; reflexivity|]].
  intros k' Hin Hle. simpl in Hin. destruct Hin as [<-|[<-|[<-|[]]]]; vm_compute in Hle |- *; congruence.
Qed.
