(* C16 — Path and in-memory I/O are equivalent and honour the declared encoding. Statements only (PARTIAL by nature).
   The model carries the adapters' decision logic; the file system [fs], the codec [enc]/[dec] (assumed lawful:
   decoding what was encoded gives the text back) and what the driver computes from the text ([parse]) are section
   parameters. CPython's codec tables, BOM handling, newline translation and OS path resolution are NOT modelled;
   they are exercised by the correspondence check with a real temporary directory. *)
From Coq Require Import String ZArith NArith List Bool Arith.
From Cfi Require Import Glue.Sx Py.PyStr Model.IO Proofs.IOProofs.
Import ListNotations.

Section C16.
  Variable fs : str -> option (list N).
  Variable dec : list N -> option str.
  Variable enc : str -> option (list N).
  Variable A : Type.
  Variable parse : str -> A.
  Hypothesis codec : forall s b, enc s = Some b -> dec b = Some s.

  (* reading from a path gives the same as reading the decoded content passed directly (content that is not itself
     the name of an existing file) *)
  Theorem C16_read_equiv : forall p b s,
    fs p = Some b -> dec b = Some s -> fs s = None ->
    read_any fs dec A parse p = read_any fs dec A parse s.
  Proof. exact (read_path_content fs dec A parse). Qed.

  (* writing to a path produces bytes that decode, with the declared encoding, to exactly the in-memory output *)
  Theorem C16_write_equiv : forall text b, write_path enc text = Some b -> dec b = Some (write_mem text).
  Proof. exact (write_path_decodes dec enc codec). Qed.

  (* a round trip through disk equals a round trip through memory *)
  Theorem C16_roundtrip : forall text b p (fs' : str -> option (list N)),
    write_path enc text = Some b -> fs' p = Some b -> fs' (write_mem text) = None ->
    read_any fs' dec A parse p = read_any fs' dec A parse (write_mem text).
  Proof. exact (disk_roundtrip dec enc A parse codec). Qed.
End C16.
Print Assumptions C16_read_equiv.
Print Assumptions C16_write_equiv.
Print Assumptions C16_roundtrip.

(* non-vacuity: the identity codec on a one-file file system *)
Example C16_example :
  let fs := fun p : str => if str_eqb p (s2l "f"%string) then Some (s2l "x"%string) else None in
  read_any fs (fun b => Some b) nat (@length N) (s2l "f"%string) = read_any fs (fun b => Some b) nat (@length N) (s2l "x"%string).
Proof. vm_compute. reflexivity. Qed.
