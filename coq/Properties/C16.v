(* C16 — Path and in-memory I/O are equivalent and honour the declared encoding. Statements only.
   The model carries the adapters' decision logic. Part 1 is parametric in the file system [fs], the codec [enc]/[dec]
   (assumed lawful), the newline translation [tr] of text-mode open() and what the driver computes from the text ([parse]).
   Part 2 instantiates codec and translation with executable models of CPython's utf-8, latin-1, cp1252 and utf-16 codecs
   and of universal-newline translation (Py/PyCodec.v, tied to CPython by the correspondence check), whose lawfulness is
   proved (Proofs/CodecProofs.v): there the only parameters left are the file system and the parser. OS path resolution
   is NOT modelled ([fs] is an arbitrary function); it is exercised by the check with a real temporary directory. *)
From Coq Require Import String ZArith NArith List Bool Arith.
From Cfi Require Import Glue.Sx Py.PyStr Py.PyCodec Model.IO Proofs.IOProofs Proofs.CodecProofs.
Import ListNotations.

Section C16.
  Variable fs : str -> option (list N).
  Variable dec : list N -> option str.
  Variable enc : str -> option (list N).
  Variable tr : str -> str.
  Variable A : Type.
  Variable parse : str -> A.
  Hypothesis codec : forall s b, enc s = Some b -> dec b = Some s.
  Hypothesis dec_nil : dec [] = Some [].

  (* reading from a path gives the same as reading the decoded content passed directly (content that is not itself
     the name of an existing file, and that newline translation leaves alone: '\n' line ends) *)
  Theorem C16_read_equiv : forall p b s,
    fs p = Some b -> dec b = Some s -> tr s = s -> fs s = None ->
    read_any fs dec tr A parse p = read_any fs dec tr A parse s.
  Proof. exact (read_path_content fs dec tr A parse). Qed.

  (* writing to a path (the chunks the elements write, in order) produces bytes that decode, with the declared encoding, to
     exactly the in-memory output *)
  Theorem C16_write_equiv : forall chunks b, write_path enc chunks = Some b -> dec b = Some (write_mem chunks).
  Proof. exact (write_path_decodes dec enc codec dec_nil). Qed.

  (* a round trip through disk equals a round trip through memory *)
  Theorem C16_roundtrip : forall (text : list str) b p (fs' : str -> option (list N)),
    write_path enc text = Some b -> fs' p = Some b -> tr (write_mem text) = write_mem text -> fs' (write_mem text) = None ->
    read_any fs' dec tr A parse p = read_any fs' dec tr A parse (write_mem text).
  Proof. exact (disk_roundtrip dec enc tr A parse codec dec_nil). Qed.
End C16.
Print Assumptions C16_read_equiv.
Print Assumptions C16_write_equiv.
Print Assumptions C16_roundtrip.

(* ---------------------------------------------------------------------------------------------------------------
   Part 2: the four encodings of the property, concretely. *)

(* the modelled codecs are lawful: decoding what was encoded gives the text back (utf-16: BOM + little-endian units) *)
Theorem C16_codec_lawful : forall e s b, encode_with e s = Some b -> decode_with e b = Some s.
Proof. exact codec_lawful. Qed.
Print Assumptions C16_codec_lawful.

(* which texts can be written at all: utf-8 and utf-16 encode exactly the texts made of Unicode scalar values,
   latin-1 exactly the texts of code points <= 255 *)
Theorem C16_utf8_total : forall s,
  (forall c, In c s -> (c < 1114112 /\ ~ (55296 <= c <= 57343))%N) -> exists b, utf8_encode s = Some b.
Proof. exact utf8_encode_total_on_scalars. Qed.
Print Assumptions C16_utf8_total.
Theorem C16_utf16_total : forall s,
  (forall c, In c s -> (c < 1114112 /\ ~ (55296 <= c <= 57343))%N) -> exists b, utf16_encode s = Some b.
Proof. exact utf16_encode_total_on_scalars. Qed.
Print Assumptions C16_utf16_total.
Theorem C16_latin1_total : forall s, (exists b, latin1_encode s = Some b) <-> (forall c, In c s -> (c <= 255)%N).
Proof. exact latin1_encode_total_iff. Qed.
Print Assumptions C16_latin1_total.

Theorem C16_decode_empty : forall e, decode_with e [] = Some [].
Proof. intros e; destruct e; reflexivity. Qed.
Print Assumptions C16_decode_empty.

(* universal newlines: a text without carriage returns is left alone (and only such texts are) *)
Theorem C16_newlines : forall s, translate_nl s = s <-> ~ In 13%N s.
Proof. exact translate_nl_fixed_iff. Qed.
Print Assumptions C16_newlines.

(* text-mode read-back of what was written: exactly the text iff it has no carriage return *)
Theorem C16_text_mode_read_back : forall e s b, encode_with e s = Some b ->
  (option_map translate_nl (decode_with e b) = Some s <-> ~ In 13%N s).
Proof. exact text_mode_read_back_exact. Qed.
Print Assumptions C16_text_mode_read_back.

Section C16_concrete.
  Variable A : Type.
  Variable parse : str -> A.
  Variable e : encoding.

  Theorem C16_read_equiv_concrete : forall (fs : str -> option (list N)) p b s,
    fs p = Some b -> decode_with e b = Some s -> ~ In 13%N s -> fs s = None ->
    read_any fs (decode_with e) translate_nl A parse p = read_any fs (decode_with e) translate_nl A parse s.
  Proof.
    intros fs p b s Hp Hd Hcr Hn.
    exact (read_path_content fs (decode_with e) translate_nl A parse p b s Hp Hd (translate_nl_id s Hcr) Hn).
  Qed.

  Theorem C16_write_equiv_concrete : forall chunks b,
    write_path (encode_with e) chunks = Some b -> decode_with e b = Some (write_mem chunks).
  Proof. exact (write_path_decodes (decode_with e) (encode_with e) (codec_lawful e) (C16_decode_empty e)). Qed.

  Theorem C16_roundtrip_concrete : forall (text : list str) b p (fs' : str -> option (list N)),
    write_path (encode_with e) text = Some b -> fs' p = Some b -> ~ In 13%N (write_mem text) -> fs' (write_mem text) = None ->
    read_any fs' (decode_with e) translate_nl A parse p =
    read_any fs' (decode_with e) translate_nl A parse (write_mem text).
  Proof.
    intros text b p fs' Hw Hp Hcr Hn.
    exact (disk_roundtrip (decode_with e) (encode_with e) translate_nl A parse (codec_lawful e) (C16_decode_empty e) text b p fs'
             Hw Hp (translate_nl_id (write_mem text) Hcr) Hn).
  Qed.

  (* ... and where the property needs its "'\n' line ends" restriction: with a carriage return in the text the path read
     sees the translated text, the in-memory read the text itself *)
  Theorem C16_path_read_translates : forall (fs : str -> option (list N)) p b s,
    fs p = Some b -> decode_with e b = Some s ->
    read_any fs (decode_with e) translate_nl A parse p = Some (parse (translate_nl s)).
  Proof. exact (fun fs => read_path_translated fs (decode_with e) translate_nl A parse). Qed.
End C16_concrete.
Print Assumptions C16_read_equiv_concrete.
Print Assumptions C16_write_equiv_concrete.
Print Assumptions C16_roundtrip_concrete.
Print Assumptions C16_path_read_translates.

(* non-vacuity: "ç€\n" written as utf-16 to the one file of a file system and read back by a parser that counts characters *)
Example C16_example :
  let text := [[231; 8364]; [10]]%N in
  exists b, write_path (encode_with Utf16) text = Some b /\
    let fs := fun p : str => if str_eqb p (s2l "f"%string) then Some b else None in
    read_any fs (decode_with Utf16) translate_nl nat (@length N) (s2l "f"%string) = Some 3 /\
    read_any fs (decode_with Utf16) translate_nl nat (@length N) (write_mem text) = Some 3 /\
    write_path (encode_with Utf16) [] = Some [] /\ write_path (encode_with Utf16) [[]] = Some [255; 254]%N.
Proof. eexists. split; [vm_compute; reflexivity|]. vm_compute. repeat split; reflexivity. Qed.
