(* C01, continued — the statements whose proofs go through the real numbers (Flocq): what float(text) means and text
   stability of float fields. These depend on the standard library's real-number axioms (listed by Print Assumptions
   below: ClassicalDedekindReals.sig_not_dec, ClassicalDedekindReals.sig_forall_dec,
   FunctionalExtensionality.functional_extensionality_dep, Classical_Prop.classic); nothing is declared here.
   Statements only. *)
From Coq Require Import ZArith NArith List Bool Arith Reals.
Local Open Scope R_scope.
From Coq Require Import Floats.SpecFloat.
From Flocq Require Import Core.Core IEEE754.BinarySingleNaN.
From Cfi Require Import Glue.Sx Py.PyStr Py.PyNum Py.PyBits Py.PyDate Model.Field Model.Line.
From Cfi Require Import Proofs.FieldProofs Proofs.NumText Proofs.LineProofs Proofs.FloatReal.
Import ListNotations.

(* the model of float(str) on a fraction n/d IS IEEE-754 round-to-nearest-even to binary64 (no overflow case) ... *)
Theorem C01_rn64_is_round_nearest_even : forall (neg : bool) (n d : positive),
  let q := ((if neg then -1 else 1) * IZR (Zpos n) / IZR (Zpos d))%R in
  Rlt_bool (Rabs (round radix2 (FLT_exp (-1074) 53) ZnearestE q)) (bpow radix2 1024) = true ->
  SF2R radix2 (rn64 neg n d) = round radix2 (FLT_exp (-1074) 53) ZnearestE q /\
  SpecFloat.valid_binary 53 1024 (rn64 neg n d) = true.
Proof. exact rn64_correct. Qed.
Print Assumptions C01_rn64_is_round_nearest_even.

(* ... hence no binary64 value is closer to n/d than what was read *)
Theorem C01_rn64_nearest : forall (neg : bool) (n d : positive) (y : R),
  let q := ((if neg then -1 else 1) * IZR (Zpos n) / IZR (Zpos d))%R in
  generic_format radix2 (FLT_exp (-1074) 53) y ->
  Rlt_bool (Rabs (round radix2 (FLT_exp (-1074) 53) ZnearestE q)) (bpow radix2 1024) = true ->
  (Rabs (sfR (rn64 neg n d) - q) <= Rabs (y - q))%R.
Proof. exact rn64_nearest. Qed.
Print Assumptions C01_rn64_nearest.

(* one write/read cycle never drifts: rounding a double to d decimals, reading the decimal back as the nearest double and
   rounding again gives the same decimal, for every finite double and every d *)
Theorem C01_round_idempotent : forall s m e (d : nat), SpecFloat.bounded 53 1024 m e = true ->
  let N := round_dec m e (Z.of_nat d) in
  match sf_of_dec s N (- Z.of_nat d) with
  | S754_finite s' m' e' => s' = s /\ round_dec m' e' (Z.of_nat d) = N
  | S754_zero s' => s' = s /\ N = 0%Z
  | _ => False
  end.
Proof. exact round_dec_idempotent. Qed.
Print Assumptions C01_round_idempotent.

(* text stability for float fields in F notation: for EVERY finite binary64 value (every width, every declared number of
   decimals, both separators), writing what was read reproduces the identical text -- including the choice of how many
   decimals fit *)
Theorem C01_stable_float : forall f dd up sep s m e, kind f = KFloat dd false up sep -> (sep = [DOT] \/ sep = [44%N]) ->
  SpecFloat.bounded 53 1024 m e = true -> fits f (VFloat (S754_finite s m e)) = true ->
  stable_field f (VFloat (S754_finite s m e)).
Proof. exact stable_float_fixed. Qed.
Print Assumptions C01_stable_float.

Theorem C01_stable_float_zero : forall f dd up sep s, kind f = KFloat dd false up sep -> (sep = [DOT] \/ sep = [44%N]) ->
  stable_field f (VFloat (S754_zero s)).
Proof. exact stable_float_zero. Qed.
Print Assumptions C01_stable_float_zero.
