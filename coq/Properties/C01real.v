(* C01, continued — the statements whose proofs go through the real numbers (Flocq): what float(text) means and text
   stability of float fields. These depend on the standard library's real-number axioms (listed by Print Assumptions
   below: ClassicalDedekindReals.sig_not_dec, ClassicalDedekindReals.sig_forall_dec,
   FunctionalExtensionality.functional_extensionality_dep, Classical_Prop.classic); nothing is declared here.
   Statements only. *)
From Coq Require Import ZArith NArith List Bool Arith Reals.
Local Open Scope R_scope.
From Coq Require Import Floats.SpecFloat.
From Flocq Require Import Core.Core IEEE754.BinarySingleNaN.
From Cfi Require Import Glue.Sx Py.PyStr Py.PyNum Py.PyBits Py.PyDate Model.Field Model.Line.
From Cfi Require Import Proofs.FieldProofs Proofs.NumText Proofs.LineProofs Proofs.FloatSci Proofs.FloatReal Proofs.FloatRound Proofs.FloatSciReal.
Import ListNotations.

(* the model of float(str) on a fraction n/d IS IEEE-754 round-to-nearest-even to binary64 (no overflow case) ... *)
Theorem C01_rn64_is_round_nearest_even : forall (neg : bool) (n d : positive),
  let q := ((if neg then -1 else 1) * IZR (Zpos n) / IZR (Zpos d))%R in
  Rlt_bool (Rabs (round radix2 (FLT_exp (-1074) 53) ZnearestE q)) (bpow radix2 1024) = true ->
  SF2R radix2 (rn64 neg n d) = round radix2 (FLT_exp (-1074) 53) ZnearestE q /\
  SpecFloat.valid_binary 53 1024 (rn64 neg n d) = true.
Proof. exact rn64_correct. Qed.
Print Assumptions C01_rn64_is_round_nearest_even.

(* ... hence no binary64 value is closer to n/d than what was read *)
Theorem C01_rn64_nearest : forall (neg : bool) (n d : positive) (y : R),
  let q := ((if neg then -1 else 1) * IZR (Zpos n) / IZR (Zpos d))%R in
  generic_format radix2 (FLT_exp (-1074) 53) y ->
  Rlt_bool (Rabs (round radix2 (FLT_exp (-1074) 53) ZnearestE q)) (bpow radix2 1024) = true ->
  (Rabs (sfR (rn64 neg n d) - q) <= Rabs (y - q))%R.
Proof. exact rn64_nearest. Qed.
Print Assumptions C01_rn64_nearest.

(* one write/read cycle never drifts: rounding a double to d decimals, reading the decimal back as the nearest double and
   rounding again gives the same decimal, for every finite double and every d *)
Theorem C01_round_idempotent : forall s m e (d : nat), SpecFloat.bounded 53 1024 m e = true ->
  let N := round_dec m e (Z.of_nat d) in
  match sf_of_dec s N (- Z.of_nat d) with
  | S754_finite s' m' e' => s' = s /\ round_dec m' e' (Z.of_nat d) = N
  | S754_zero s' => s' = s /\ N = 0%Z
  | _ => False
  end.
Proof. exact round_dec_idempotent. Qed.
Print Assumptions C01_round_idempotent.

(* text stability for float fields in F notation: for EVERY finite binary64 value (every width, every declared number of
   decimals, both separators), writing what was read reproduces the identical text -- including the choice of how many
   decimals fit *)
Theorem C01_stable_float : forall f dd up sep s m e, kind f = KFloat dd false up sep -> (sep = [DOT] \/ sep = [44%N]) ->
  SpecFloat.bounded 53 1024 m e = true -> fits f (VFloat (S754_finite s m e)) = true ->
  stable_field f (VFloat (S754_finite s m e)).
Proof. exact stable_float_fixed. Qed.
Print Assumptions C01_stable_float.

Theorem C01_stable_float_zero : forall f dd up sep s, kind f = KFloat dd false up sep -> (sep = [DOT] \/ sep = [44%N]) ->
  stable_field f (VFloat (S754_zero s)).
Proof. exact stable_float_zero. Qed.
Print Assumptions C01_stable_float_zero.

(* ---------------------------------------------------------------------------------------------------------------
   Python's round() in front of format.  F notation: the code formats round(x, d); the model renders x directly, and the two
   are the same text for every finite double and every d (and round never raises there). *)
Theorem C01_round_absorbed_fixed : forall up s m e (d : nat) y, SpecFloat.bounded 53 1024 m e = true ->
  py_round (S754_finite s m e) (Z.of_nat d) = Some y ->
  fmtF up y d = fmtF up (S754_finite s m e) d.
Proof. exact fmtF_round_absorb. Qed.
Print Assumptions C01_round_absorbed_fixed.

Theorem C01_round_fixed_never_raises : forall s m e (d : nat), SpecFloat.bounded 53 1024 m e = true ->
  exists y, py_round (S754_finite s m e) (Z.of_nat d) = Some y.
Proof. exact py_round_fixed_never_raises. Qed.
Print Assumptions C01_round_fixed_never_raises.

(* E notation: the model keeps round() (sci_val).  For a normal double and at most 15 significant digits it changes nothing:
   the text is the one-step half-even rendering of x itself ... *)
Theorem C01_round_absorbed_sci : forall up s m e dd, SpecFloat.bounded 53 1024 m e = true ->
  (dd <= 14)%nat -> (2 ^ 52 <= Zpos m)%Z -> sci_raises (S754_finite s m e) dd = false ->
  fmtE up (sci_val (S754_finite s m e) dd) dd = fmtE up (S754_finite s m e) dd.
Proof. exact fmtE_round_absorb_normal. Qed.
Print Assumptions C01_round_absorbed_sci.

(* ... so the emitted decimal is within half a unit of its last digit of the value, exactly, and reads back as the double
   nearest to it *)
Theorem C01_float_sci_half_unit : forall f dd up sep s m e, kind f = KFloat dd true up sep ->
  (sep = [DOT] \/ sep = [44%N]) ->
  SpecFloat.bounded 53 1024 m e = true -> fits f (VFloat (S754_finite s m e)) = true ->
  forall (Hdigits : (dd <= 14)%nat) (Hnormal : (2 ^ 52 <= Zpos m)%Z),
  exists n e10, (10 ^ Z.of_nat dd <= n < 10 ^ (Z.of_nat dd + 1))%Z /\
    float_text true (size f) dd true up sep (S754_finite s m e) = replace [DOT] sep (sci_text up s n dd e10) /\
    (let (num, den) := scaled m e (Z.of_nat dd - e10) in (2 * Z.abs (n * den - num) <= den)%Z) /\
    reread f (VFloat (S754_finite s m e)) = VFloat (sf_of_dec s n (e10 - Z.of_nat dd)).
Proof. exact float_sci_half_unit_normal. Qed.
Print Assumptions C01_float_sci_half_unit.

(* below 1e308 the E-notation write never raises *)
Theorem C01_float_sci_writes : forall s m e dd, SpecFloat.bounded 53 1024 m e = true ->
  (magR m e < bpow radix10 308)%R -> sci_raises (S754_finite s m e) dd = false.
Proof. exact sci_writes_below_1e308. Qed.
Print Assumptions C01_float_sci_writes.

(* TEXT STABILITY IN E NOTATION, for EVERY finite binary64 value whose text fits (subnormals, any number of digits, both
   separators): writing what was read reproduces the identical text, and what was read is finite *)
Theorem C01_stable_float_sci : forall f dd up sep s m e, kind f = KFloat dd true up sep ->
  (sep = [DOT] \/ sep = [44%N]) ->
  SpecFloat.bounded 53 1024 m e = true -> fits f (VFloat (S754_finite s m e)) = true ->
  stable_field f (VFloat (S754_finite s m e)) /\
  finite_value (reread f (VFloat (S754_finite s m e))) = true.
Proof. exact stable_float_sci_faithful. Qed.
Print Assumptions C01_stable_float_sci.

(* every float field, either notation, either separator, every finite binary64 value (zeros included) whose text fits:
   one write/read cycle never drifts *)
Theorem C01_stable_float_all : forall f dd sci up sep x, kind f = KFloat dd sci up sep ->
  (sep = [DOT] \/ sep = [44%N]) ->
  match x with
  | S754_zero _ => True
  | S754_finite _ m e => SpecFloat.bounded 53 1024 m e = true
  | _ => False
  end ->
  fits f (VFloat x) = true -> stable_field f (VFloat x).
Proof.
  intros f dd sci up sep x K Hs Hx Hf. destruct x as [s|s| |s m e]; try contradiction.
  - destruct sci.
    + exact (stable_float_sci_zero f dd up sep s K Hs Hf).
    + exact (stable_float_zero f dd up sep s K Hs).
  - destruct sci.
    + exact (proj1 (stable_float_sci_faithful f dd up sep s m e K Hs Hx Hf)).
    + exact (stable_float_fixed f dd up sep s m e K Hs Hx Hf).
Qed.
Print Assumptions C01_stable_float_all.

(* ---------------------------------------------------------------------------------------------------------------
   Where the property's half-unit clause FAILS on the faithful model (and on the code: the check replays these; they are the
   recorded findings of known_findings.json).  Closed, by computation. *)
Theorem C01_refuted_sci_half_unit_subnormal :
  let x := S754_finite false 21 (-1074) in
  SpecFloat.bounded 53 1024 21 (-1074) = true /\
  sci_raises x 1 = false /\
  fmtE true (sci_val x 1) 1 = [57; 46; 57; 69; 45; 51; 50; 51]%N /\
  fmtE true (sci_val x 1) 1 = sci_text true false 99 1 (-323) /\
  (2 * Z.abs (99 * 2 ^ 1074 - 21 * 10 ^ 324) > 2 ^ 1074)%Z /\
  fits (cex_field 1 8) (VFloat x) = true.
Proof. exact half_unit_fails_subnormal. Qed.
Print Assumptions C01_refuted_sci_half_unit_subnormal.

Theorem C01_refuted_sci_half_unit_16_digits :
  let x := S754_finite false 5960464477539063 24 in
  SpecFloat.bounded 53 1024 5960464477539063 24 = true /\ (2 ^ 52 <= 5960464477539063)%Z /\
  sci_raises x 15 = false /\
  fmtE true (sci_val x 15) 15 =
    [57; 46; 57; 57; 57; 57; 57; 57; 57; 57; 57; 57; 57; 57; 57; 57; 57; 69; 43; 50; 50]%N /\
  fmtE true (sci_val x 15) 15 = sci_text true false 9999999999999999 15 22 /\
  (2 * Z.abs (9999999999999999 * 10 ^ 7 - 5960464477539063 * 2 ^ 24) > 10 ^ 7)%Z /\
  fits (cex_field 15 21) (VFloat x) = true.
Proof. exact half_unit_fails_16_digits. Qed.
Print Assumptions C01_refuted_sci_half_unit_16_digits.

Theorem C01_refuted_sci_write_raises :
  let x := S754_finite false 9007199254740991 971 in
  SpecFloat.bounded 53 1024 9007199254740991 971 = true /\
  sci_raises x 2 = true /\ render (cex_field 2 9) (VFloat x) = None /\
  fits (cex_field 2 9) (VFloat x) = false.
Proof. exact write_raises_near_max. Qed.
Print Assumptions C01_refuted_sci_write_raises.
