(* C06 — Read-then-write is a projection; unrecognised lines survive verbatim. Statements only. *)
From Coq Require Import String ZArith NArith List Bool Arith.
From Coq Require Import Floats.SpecFloat.
From Cfi Require Import Glue.Sx Py.PyStr Py.PyNum Py.PyBits Py.PyDate Model.Field Model.Line Model.Reader.
From Cfi Require Import Proofs.FieldProofs Proofs.LineProofs Proofs.ReaderProofs Proofs.RegProofs.
Import ListNotations.

(* [elem_stable rs e] (Proofs/RegProofs.v) is the per-element form of the premise "parsed values are representable
   under unambiguous identifiers": a typed element either vanishes (all values missing) or writes one line that
   dispatches back to its type and whose re-read data write the same line again (C01 text stability).
   For EVERY content x whose parsed elements are stable, y = W (R x) is a fixed point: W (R y) = y. *)
Theorem C06_projection : forall rs x es y, RX rs x = Some es -> Forall (elem_stable rs) es ->
  write_elems Text rs es = Some y ->
  exists es2, RX rs y = Some es2 /\ write_elems Text rs es2 = Some y.
Proof. exact regfile_projection. Qed.
Print Assumptions C06_projection.

(* every line that matches no declared register appears in y unchanged and in the same relative order *)
Theorem C06_default_preserved : forall rs x es y, RX rs x = Some es -> Forall (elem_stable rs) es ->
  write_elems Text rs es = Some y ->
  filter (fun l => match reg_dispatch rs l with None => true | Some _ => false end) (split_lines x)
  = filter (fun l => match reg_dispatch rs l with None => true | Some _ => false end) (split_lines y).
Proof. exact regfile_default_preserved. Qed.
Print Assumptions C06_default_preserved.

(* content that was itself produced by a write of round-tripping data is reproduced exactly *)
Theorem C06_written_fixed : forall fr fd ls rs D,
  Forall (fun e => vanishes e = true \/ elem_roundtrips rs e) D ->
  exists text, write_elems Text rs D = Some text /\
    option_map (map (to_elem Text rs)) (read_regfile fr fd Text ls rs (S (length text)) text)
      = Some (filter (fun e => negb (vanishes e)) D).
Proof. exact regfile_roundtrip. Qed.
Print Assumptions C06_written_fixed.
(* (W of the filtered list equals W D because vanishing elements write nothing: C05_empty_skipped.) *)
