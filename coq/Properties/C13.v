(* C13 — Section files: declared order, stream hand-off, leftovers kept verbatim. Statements only.
   Sections are the raw sections of the harness family (consume a fixed number of lines, or lines up to and
   including the first one matching a pattern; they store the text they consume). *)
From Coq Require Import String ZArith NArith List Bool Arith.
From Coq Require Import Floats.SpecFloat.
From Cfi Require Import Glue.Sx Py.PyStr Py.PyNum Py.PyBits Py.PyDate Py.PyRe Model.Field Model.Line Model.Reader.
From Cfi Require Import Proofs.ReaderProofs.
Import ListNotations.

(* for EVERY content (shorter than the sections expect included): reading terminates, writing reproduces the content,
   the declared sections come first, exactly once each, in declared order; everything after is a default section *)
Theorem C13_total_roundtrip : forall ds s, exists es,
  read_sectionfile ds (S (length s)) s = Some es /\
  write_raw es = s /\
  map fst (firstn (length ds) es) = map Some (seq 0 (length ds)) /\
  Forall (fun e => fst e = None) (skipn (length ds) es) /\
  length es <= length ds + length s.
Proof. exact sectionfile_spec. Qed.
Print Assumptions C13_total_roundtrip.

(* declared order and hand-off: section i starts where section i-1 stopped *)
Theorem C13_declared_order : forall ds i s es rest, read_declared ds i s = (es, rest) ->
  s = concat (map snd es) ++ rest /\ map fst es = map Some (seq i (length ds)).
Proof. exact read_declared_spec. Qed.
Print Assumptions C13_declared_order.

Theorem C13_handoff : forall d s c rest, sec_consume d s = (c, rest) -> s = c ++ rest.
Proof. exact sec_consume_split. Qed.
Print Assumptions C13_handoff.

(* leftovers: the lines remaining after the declared sections become default sections, one per line, verbatim *)
Theorem C13_leftovers : forall ds s es, read_sectionfile ds (S (length s)) s = Some es ->
  let declared := firstn (length ds) es in
  let rest := skipn (length (concat (map snd declared))) s in
  fst (read_declared ds 0 s) = declared /\ map snd (skipn (length ds) es) = split_lines rest.
Proof. exact sectionfile_handoff. Qed.
Print Assumptions C13_leftovers.

(* an until-section consumes the lines up to and including the first one on which its pattern is found (every remaining line
   if none), a fixed-count section its k lines; nothing when the content is exhausted *)
Theorem C13_until_extent : forall p s, s <> [] ->
  sec_consume (SecUntil p) s =
    (concat (take_until (pat_search p) (split_lines s)), concat (drop_until (pat_search p) (split_lines s))).
Proof. intros p s Hs. cbn [sec_consume]. destruct s; [congruence|]. apply raw_block_spec. Qed.
Print Assumptions C13_until_extent.

Example C13_example :
  read_sectionfile [SecLines 2; SecUntil (re_lit (s2l "END"%string))] 40
     (s2l "a"%string ++ [NL] ++ s2l "b"%string ++ [NL] ++ s2l "c END"%string ++ [NL] ++ s2l "tail"%string)
  = Some [ (Some 0, s2l "a"%string ++ [NL] ++ s2l "b"%string ++ [NL]); (Some 1, s2l "c END"%string ++ [NL]); (None, s2l "tail"%string) ].
Proof. vm_compute. reflexivity. Qed.
