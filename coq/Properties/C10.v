(* C10 — Written registers are recognised, self-delimiting and re-readable in any storage. Statements only.
   The model is of the repaired code (binary read requests exactly the composite line width). *)
From Coq Require Import String ZArith NArith List Bool Arith.
From Coq Require Import Floats.SpecFloat.
From Cfi Require Import Glue.Sx Py.PyStr Py.PyNum Py.PyBits Py.PyDate Py.PyRe Model.Field Model.Line Model.Reader.
From Cfi Require Import Proofs.FieldProofs Proofs.LineProofs Proofs.ReaderProofs Proofs.RegProofs Proofs.DelimProofs.
Import ListNotations.

(* positional text: the written register carries its identifier left-justified in the identifier columns, is
   recognised by its own type's identifier test on the leading window, and ends with a newline.
   reg_wf: the identifier is no longer than its window, the fields lie to the right of it, and -- when the identifier test
   is a regular expression rather than the literal -- that expression finds the left-justified literal (one evaluation) *)
Theorem C10_recognised : forall rs i d text, r_delim (nth_reg rs i) = None -> reg_wf (nth_reg rs i) ->
  all_none d = false -> write_elem Text rs (ETyped i d) = Some text ->
  Forall (fun fv => fits (fst fv) (snd fv) = true) (combine (r_fields (nth_reg rs i)) d) -> length d = length (r_fields (nth_reg rs i)) ->
  firstn (r_digits (nth_reg rs i)) text = ljust (r_digits (nth_reg rs i)) (r_ident (nth_reg rs i)) /\
  reg_matches (nth_reg rs i) text = true /\
  exists body, text = body ++ [NL].
Proof. exact reg_write_ident_columns. Qed.
Print Assumptions C10_recognised.

(* delimited text: the identifier is the first token of the written line *)
Theorem C10_delimited_ident_first : forall rs i d c text, r_delim (nth_reg rs i) = Some [c] ->
  all_none d = false -> write_elem Text rs (ETyped i d) = Some text ->
  length (r_ident (nth_reg rs i)) <= r_digits (nth_reg rs i) ->
  strip is_space (r_ident (nth_reg rs i)) = r_ident (nth_reg rs i) -> ~ In c (r_ident (nth_reg rs i)) ->
  exists rest, text = r_ident (nth_reg rs i) ++ rest /\ (rest = [NL] \/ exists r', rest = c :: r').
Proof. exact reg_write_delim_ident_first. Qed.
Print Assumptions C10_delimited_ident_first.

(* text storage: reading consumes exactly what writing produced -- one line per register -- so k consecutive
   registers stay aligned (position after the i-th read = sum of the first i record lengths), for every k *)
Theorem C10_stream_text : forall fr rs types cs rest, length types = length cs -> Forall line_chunk cs ->
  consume_all fr Text rs types (concat cs ++ rest) = (cs, rest).
Proof. exact stream_text_aligned. Qed.
Print Assumptions C10_stream_text.

(* binary storage: a contiguous layout writes identifier-width + field-width bytes ... *)
Theorem C10_binary_width : forall rs i d bytes, contiguous (r_digits (nth_reg rs i)) (r_fields (nth_reg rs i)) ->
  all_none d = false -> write_elem Binary rs (ETyped i d) = Some bytes ->
  Forall (fun fv => fits_bin (fst fv) (snd fv) = true) (combine (composite (nth_reg rs i)) (VStr (r_ident (nth_reg rs i)) :: d)) ->
  length d = length (r_fields (nth_reg rs i)) ->
  length bytes = composite_size (nth_reg rs i).
Proof. exact reg_write_binary_width. Qed.
Print Assumptions C10_binary_width.

(* ... and reading consumes exactly that many, so consecutive binary records stay aligned *)
Theorem C10_stream_binary : forall rs types cs rest, length types = length cs ->
  Forall2 (fun i c => length c = composite_size (nth_reg rs i)) types cs ->
  consume_all true Binary rs types (concat cs ++ rest) = (cs, rest).
Proof. exact stream_binary_aligned. Qed.
Print Assumptions C10_stream_binary.

(* the data read back are those of the composite line read on exactly the consumed record (C01/C09/C11 give the
   per-line round trip): by definition of reg_data *)
Theorem C10_data : forall sto r c,
  reg_data sto r c = tl (values_of (line_read sto (r_delim r) (mk_state (composite r)) c)).
Proof. reflexivity. Qed.
Print Assumptions C10_data.

(* the code as found mis-aligned binary streams as soon as an identifier width was positive *)
Theorem C10_refuted_binary_request :
  exists rs types cs, Forall2 (fun i c => length c = composite_size (nth_reg rs i)) types cs /\
    fst (consume_all false Binary rs types (concat cs)) <> cs.
Proof. exact stream_binary_as_found_misaligned. Qed.

(* reg_wf is satisfiable for an identifier that is a regular expression: IDENTIFIER = "A." is written as the text "A." (Register.write
   puts the attribute itself into the identifier columns) and finds it; IDENTIFIER = "^AB" is written as "^AB" and does not find
   it -- such a register is not re-readable (DESIGN.md section 12) *)
Example C10_reg_wf_regex :
  reg_wf {| r_ident := s2l "A."%string; r_digits := 3; r_fields := [ {| kind := KInt; size := 4; start := 3 |} ]; r_delim := None;
            r_pat := Some (RSeq (re_chr 65%N) (RChr CAny)) |}.
Proof.
  unfold reg_wf. cbn [r_ident r_digits r_fields r_pat]. split; [cbn; repeat constructor|].
  split; [repeat constructor|]. vm_compute. reflexivity.
Qed.
Example C10_regex_identifier_not_rereadable :
  re_search (RSeq RBol (re_lit (s2l "AB"%string))) (ljust 4 (s2l "^AB"%string)) = false.
Proof. vm_compute. reflexivity. Qed.
