(* C17 — Faults propagate, handles are released, partial output is a clean prefix. Statements only.
   Model/IO.v: what each element does is a behaviour (emit/consume text, or raise exception e); [actual] is the
   code's structure: the loop runs inside `with repository:`, __exit__ closes what __enter__ opened. *)
From Coq Require Import String ZArith NArith List Bool Arith.
From Cfi Require Import Glue.Sx Py.PyStr Model.IO Proofs.IOProofs.
Import ListNotations.

(* writing, for EVERY list of element behaviours (any length, any fault position, any exception), path or buffer:
   the exception reaching the caller is that of the first failing element (none if none fails); the destination
   holds exactly the output of the elements before it; every handle the framework opened is closed; a caller
   buffer is left open, positioned at the end of the written data, and no framework handle is involved *)
Theorem C17_write : forall dst bs,
  let r := run_write actual dst bs in
  raised r = first_fail bs /\ output r = emitted_before bs /\ fw_closed r = fw_opened r /\ buf_closed r = false /\
  (dst = Buffer -> buf_pos r = length (emitted_before bs) /\ fw_opened r = 0).
Proof. exact run_write_spec. Qed.
Print Assumptions C17_write.

(* "the elements before the failing one": the behaviour list splits at the first failure *)
Theorem C17_clean_prefix : forall bs e, first_fail bs = Some e ->
  exists pre post, bs = pre ++ WFail e :: post /\ first_fail pre = None /\ emitted_before bs = emitted_before pre.
Proof. exact first_fail_split. Qed.
Print Assumptions C17_clean_prefix.

Theorem C17_success_output : forall bs, first_fail bs = None ->
  emitted_before bs = concat (map (fun b => match b with WEmit t => t | WFail _ => [] end) bs).
Proof. exact first_fail_none. Qed.
Print Assumptions C17_success_output.

(* reading, path or in-memory content: same exception, handle closed, only a prefix of the content consumed *)
Theorem C17_read : forall src content bs,
  let r := run_read actual src content bs in
  raised r = first_rfail bs /\ fw_closed r = fw_opened r /\ (exists k, output r = firstn k content).
Proof. exact run_read_spec. Qed.
Print Assumptions C17_read.

(* both structural facts are needed: without `with`, or with an __exit__ that does not close, a handle leaks *)
Theorem C17_refuted_without_with : forall e,
  let r := run_write {| with_stmt := false; exit_closes := true |} Path [WFail e] in fw_closed r <> fw_opened r.
Proof. exact leak_without_with. Qed.
Theorem C17_refuted_without_close :
  let r := run_write {| with_stmt := true; exit_closes := false |} Path [] in fw_closed r <> fw_opened r.
Proof. exact leak_without_close. Qed.

Example C17_example :
  let r := run_write actual Path [WEmit (s2l "a"%string); WEmit (s2l "bc"%string); WFail 7; WEmit (s2l "d"%string)] in
  raised r = Some 7 /\ output r = s2l "abc"%string /\ fw_closed r = 1.
Proof. vm_compute. repeat split; reflexivity. Qed.
