(* C04 — Register file: every line becomes exactly one element, first matching type wins. Statements only. *)
From Coq Require Import String ZArith NArith List Bool Arith.
From Coq Require Import Floats.SpecFloat.
From Cfi Require Import Glue.Sx Py.PyStr Py.PyNum Py.PyBits Py.PyDate Model.Field Model.Line Model.Reader.
From Cfi Require Import Proofs.ReaderProofs.
Import ListNotations.

(* reading any text content with any declared register list succeeds (fuel |content|+1 is never exhausted) *)
Theorem C04_total : forall fr fd ls rs s,
  exists es, read_regfile fr fd Text ls rs (S (length s)) s = Some es.
Proof. exact regfile_text_total. Qed.
Print Assumptions C04_total.

(* exactly one element per input line, in input order, each holding its line (newline included, or its absence
   on the last line) *)
Theorem C04_one_element_per_line : forall fr fd ls rs fuel s es,
  read_regfile fr fd Text ls rs fuel s = Some es ->
  map snd es = split_lines s /\ length es = length (split_lines s).
Proof.
  intros fr fd ls rs fuel s es H. split; [exact (regfile_text_lines fr fd ls rs fuel s es H)|].
  exact (proj1 (regfile_text_count fr fd ls rs fuel s es H)).
Qed.
Print Assumptions C04_one_element_per_line.

(* nothing is lost: the lines concatenate to the content *)
Theorem C04_accounting : forall s, concat (split_lines s) = s.
Proof. exact split_lines_concat. Qed.
Print Assumptions C04_accounting.

(* an element's type is the first declared register whose identifier is found in the line's leading window,
   otherwise the default register *)
Theorem C04_dispatch_first_match : forall fr fd ls rs fuel s es,
  read_regfile fr fd Text ls rs fuel s = Some es ->
  Forall (fun e => fst e = reg_dispatch rs (snd e)) es /\
  (forall line i, reg_dispatch rs line = Some i <->
     exists k r, i = 0 + k /\ nth_error rs k = Some r /\ reg_matches r line = true /\
                 forall j b, j < k -> nth_error rs j = Some b -> reg_matches b line = false) /\
  (forall line, reg_dispatch rs line = None <-> forall r, In r rs -> reg_matches r line = false).
Proof.
  intros fr fd ls rs fuel s es H. split; [exact (regfile_text_dispatch fr fd ls rs fuel s es H)|split].
  - intros line i. unfold reg_dispatch. exact (find_idx_spec (fun r => reg_matches r line) rs 0 i).
  - intro line. unfold reg_dispatch. exact (find_idx_none (fun r => reg_matches r line) rs 0).
Qed.
Print Assumptions C04_dispatch_first_match.

(* the default register holds the line verbatim; the data of a typed element are exactly what its composite line
   layout reads from that line alone (a function of the line: no dependence on earlier lines) *)
Theorem C04_default_verbatim : forall sto rs line, to_elem sto rs (None, line) = EDefault (Some line).
Proof. reflexivity. Qed.
Print Assumptions C04_default_verbatim.

Theorem C04_data_local : forall rs i line,
  to_elem Text rs (Some i, line) =
  ETyped i (tl (values_of (line_read Text (r_delim (nth_reg rs i)) (mk_state (composite (nth_reg rs i))) line))).
Proof. reflexivity. Qed.
Print Assumptions C04_data_local.

Example C04_example :
  let rs := [ {| r_ident := s2l "AB"%string; r_digits := 2; r_fields := [ {| kind := KInt; size := 3; start := 2 |} ]; r_delim := None |};
              {| r_ident := s2l "A"%string; r_digits := 2; r_fields := [ {| kind := KLit; size := 3; start := 2 |} ]; r_delim := None |} ] in
  option_map (map (to_elem Text rs)) (read_regfile true true Text 1 rs 40 (s2l "AB 12"%string ++ [NL] ++ s2l "xA yz"%string ++ [NL] ++ s2l "??"%string))
  = Some [ETyped 0 [VInt 12]; ETyped 1 [VStr (s2l "yz"%string)]; EDefault (Some (s2l "??"%string))].
Proof. vm_compute. reflexivity. Qed.
