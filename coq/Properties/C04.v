(* C04 — Register file: every line becomes exactly one element, first matching type wins. Statements only. *)
From Coq Require Import String ZArith NArith List Bool Arith.
From Coq Require Import Floats.SpecFloat.
From Cfi Require Import Glue.Sx Py.PyStr Py.PyNum Py.PyBits Py.PyDate Py.PyRe Model.Field Model.Line Model.Reader.
From Cfi Require Import Proofs.ReaderProofs Proofs.ReProofs.
Import ListNotations.

(* reading any text content with any declared register list succeeds (fuel |content|+1 is never exhausted) *)
Theorem C04_total : forall fr fd ls rs s,
  exists es, read_regfile fr fd Text ls rs (S (length s)) s = Some es.
Proof. exact regfile_text_total. Qed.
Print Assumptions C04_total.

(* exactly one element per input line, in input order, each holding its line (newline included, or its absence
   on the last line) *)
Theorem C04_one_element_per_line : forall fr fd ls rs fuel s es,
  read_regfile fr fd Text ls rs fuel s = Some es ->
  map snd es = split_lines s /\ length es = length (split_lines s).
Proof.
  intros fr fd ls rs fuel s es H. split; [exact (regfile_text_lines fr fd ls rs fuel s es H)|].
  exact (proj1 (regfile_text_count fr fd ls rs fuel s es H)).
Qed.
Print Assumptions C04_one_element_per_line.

(* nothing is lost: the lines concatenate to the content *)
Theorem C04_accounting : forall s, concat (split_lines s) = s.
Proof. exact split_lines_concat. Qed.
Print Assumptions C04_accounting.

(* an element's type is the first declared register whose identifier is found in the line's leading window,
   otherwise the default register *)
Theorem C04_dispatch_first_match : forall fr fd ls rs fuel s es,
  read_regfile fr fd Text ls rs fuel s = Some es ->
  Forall (fun e => fst e = reg_dispatch rs (snd e)) es /\
  (forall line i, reg_dispatch rs line = Some i <->
     exists k r, i = 0 + k /\ nth_error rs k = Some r /\ reg_matches r line = true /\
                 forall j b, j < k -> nth_error rs j = Some b -> reg_matches b line = false) /\
  (forall line, reg_dispatch rs line = None <-> forall r, In r rs -> reg_matches r line = false).
Proof.
  intros fr fd ls rs fuel s es H. split; [exact (regfile_text_dispatch fr fd ls rs fuel s es H)|split].
  - intros line i. unfold reg_dispatch. exact (find_idx_spec (fun r => reg_matches r line) rs 0 i).
  - intro line. unfold reg_dispatch. exact (find_idx_none (fun r => reg_matches r line) rs 0).
Qed.
Print Assumptions C04_dispatch_first_match.

(* the default register holds the line verbatim; the data of a typed element are exactly what its composite line
   layout reads from that line alone (a function of the line: no dependence on earlier lines) *)
Theorem C04_default_verbatim : forall sto rs line, to_elem sto rs (None, line) = EDefault (Some line).
Proof. reflexivity. Qed.
Print Assumptions C04_default_verbatim.

Theorem C04_data_local : forall rs i line,
  to_elem Text rs (Some i, line) =
  ETyped i (tl (values_of (line_read Text (r_delim (nth_reg rs i)) (mk_state (composite (nth_reg rs i))) line))).
Proof. reflexivity. Qed.
Print Assumptions C04_data_local.

(* "identifier pattern found within the leading window": the identifier is a regular expression (r_pat) or a plain literal;
   found = some stretch of the window line[:IDENTIFIER_DIGITS] is matched (M: the denotational semantics, Proofs/ReProofs.v);
   for a literal that is substring search, which is the same thing *)
Theorem C04_identifier_found : forall r p line, r_pat r = Some p ->
  (reg_matches r line = true <->
   exists i j, i <= List.length (firstn (r_digits r) line) /\ M (firstn (r_digits r) line) p i j).
Proof. intros r p line Hp. unfold reg_matches. rewrite Hp. apply re_search_spec. Qed.
Print Assumptions C04_identifier_found.

Theorem C04_identifier_literal : forall r line, r_pat r = None ->
  reg_matches r line = contains (r_ident r) (firstn (r_digits r) line) /\
  reg_matches r line = re_search (re_lit (r_ident r)) (firstn (r_digits r) line).
Proof. intros r line Hp. unfold reg_matches. rewrite Hp. split; [reflexivity|symmetry; apply re_search_lit]. Qed.
Print Assumptions C04_identifier_literal.

(* whatever lies beyond the window never influences the identifier test *)
Theorem C04_identifier_window : forall r a b,
  firstn (r_digits r) a = firstn (r_digits r) b -> reg_matches r a = reg_matches r b.
Proof. intros r a b H. unfold reg_matches. rewrite H. reflexivity. Qed.
Print Assumptions C04_identifier_window.

(* end to end, in the vocabulary of the property: a line is given type k iff k is the first declared register whose
   identifier pattern denotes some stretch of the line's leading window (for a literal identifier: occurs in it) *)
Definition ident_found (r : regdef) (line : str) : Prop :=
  match r_pat r with
  | Some p => exists i j, i <= List.length (firstn (r_digits r) line) /\ M (firstn (r_digits r) line) p i j
  | None => contains (r_ident r) (firstn (r_digits r) line) = true
  end.

Lemma ident_found_iff : forall r line, reg_matches r line = true <-> ident_found r line.
Proof.
  intros r line. unfold ident_found. destruct (r_pat r) as [p|] eqn:Hp.
  - exact (C04_identifier_found r p line Hp).
  - unfold reg_matches. rewrite Hp. tauto.
Qed.

Theorem C04_dispatch_denotation : forall rs line k,
  reg_dispatch rs line = Some k <->
  exists r, nth_error rs k = Some r /\ ident_found r line /\
            forall j b, j < k -> nth_error rs j = Some b -> ~ ident_found b line.
Proof.
  intros rs line k. unfold reg_dispatch. rewrite (find_idx_spec (fun r => reg_matches r line) rs 0 k). split.
  - intros [k' [r [Hk [Hr [Hm Hearlier]]]]]. cbn in Hk. subst k'. exists r. split; [exact Hr|]. split.
    + apply ident_found_iff. exact Hm.
    + intros j b Hj Hb Hf. apply ident_found_iff in Hf. cbv beta in Hearlier. rewrite (Hearlier j b Hj Hb) in Hf. discriminate.
  - intros [r [Hr [Hf Hearlier]]]. exists k, r. split; [reflexivity|]. split; [exact Hr|]. split.
    + apply ident_found_iff. exact Hf.
    + intros j b Hj Hb. destruct (reg_matches b line) eqn:E; [|reflexivity].
      exfalso. apply (Hearlier j b Hj Hb). apply ident_found_iff. exact E.
Qed.
Print Assumptions C04_dispatch_denotation.

Example C04_example_regex :
  let rs := [ {| r_ident := s2l "UH"%string; r_digits := 4; r_fields := []; r_delim := None;
                 r_pat := Some (RSeq RBol (RSeq (re_lit (s2l "UH"%string)) (RChr (CSpace false false)))) |};
              {| r_ident := s2l "U"%string; r_digits := 4; r_fields := []; r_delim := None;
                 r_pat := Some (RSeq (RChr (CRanges false [(85, 86)%N])) (re_plus (RChr (CDigit false false)))) |} ] in
  option_map (map fst) (read_regfile true true Text 1 rs 40 (s2l "UH  1"%string ++ [NL] ++ s2l "xUH 2"%string ++ [NL] ++ s2l " V77"%string ++ [NL] ++ s2l "UHE"%string))
  = Some [Some 0; None; Some 1; None].
Proof. vm_compute. reflexivity. Qed.

Example C04_example :
  let rs := [ {| r_ident := s2l "AB"%string; r_digits := 2; r_fields := [ {| kind := KInt; size := 3; start := 2 |} ]; r_delim := None; r_pat := None |};
              {| r_ident := s2l "A"%string; r_digits := 2; r_fields := [ {| kind := KLit; size := 3; start := 2 |} ]; r_delim := None; r_pat := None |} ] in
  option_map (map (to_elem Text rs)) (read_regfile true true Text 1 rs 40 (s2l "AB 12"%string ++ [NL] ++ s2l "xA yz"%string ++ [NL] ++ s2l "??"%string))
  = Some [ETyped 0 [VInt 12]; ETyped 1 [VStr (s2l "yz"%string)]; EDefault (Some (s2l "??"%string))].
Proof. vm_compute. reflexivity. Qed.
