(* C01 — Positional text write->read round trip is value-preserving and text-stable. Statements only.
   The model is of the repaired code (FloatField writes its separator; Line setters keep the layout). *)
From Coq Require Import String ZArith NArith List Bool Arith.
From Coq Require Import Floats.SpecFloat.
From Cfi Require Import Glue.Sx Py.PyStr Py.PyNum Py.PyBits Py.PyDate Model.Field Model.Line.
From Cfi Require Import Proofs.FieldProofs Proofs.NumText Proofs.DateProofs Proofs.LineProofs Proofs.FloatSci.
Import ListNotations.

(* [reread f v] (Proofs/LineProofs.v) = the reference interpretation of the rendering of v, i.e. what
   reading the field's own columns of a written line returns; [disjoint] = pairwise non-overlapping spans *)

(* line level: for every layout of non-overlapping fields in any order, every value list that fits and every
   previous state of the reading line's field objects, reading the written line returns, field by field,
   the re-read rendering *)
Theorem C01_roundtrip_line : forall st vs st' text st2,
  write_pos st vs = (st', Some text) -> length vs = length st ->
  disjoint (fields_of st) -> Forall (fun fv => fits (fst fv) (snd fv) = true) st' ->
  fields_of st2 = fields_of st ->
  values_of (read_pos st2 text) = map (fun fv => reread (fst fv) (snd fv)) st'.
Proof. exact line_roundtrip. Qed.
Print Assumptions C01_roundtrip_line.

(* canonical forms: integers unchanged *)
Theorem C01_field_int : forall f z, kind f = KInt -> reread f (VInt z) = VInt z.
Proof. exact reread_int. Qed.
Print Assumptions C01_field_int.

(* literals blank-trimmed (unchanged when already trimmed) *)
Theorem C01_field_lit : forall f s, kind f = KLit -> reread f (VStr s) = VStr (strip is_space s).
Proof. exact reread_lit. Qed.
Print Assumptions C01_field_lit.

(* missing values (None / NaN / NaT) read back as None, as the empty string for literals *)
Theorem C01_field_missing : forall f v, missing v = true ->
  match kind f with
  | KLit => reread f v = VStr []
  | KInt => reread f v = VNone
  | KFloat _ _ _ sep => (sep = [DOT] \/ sep = [44%N]) -> reread f v = VNone
  | KDate fmts => Forall (fun fm => fm <> []) fmts -> reread f v = VNone
  end.
Proof.
  intros f v Hm. destruct (kind f) as [| |dd sci up sep|fmts] eqn:K.
  - exact (reread_missing_lit f v K Hm).
  - exact (reread_missing_int f v K Hm).
  - intro Hs. exact (reread_missing_float f v dd sci up sep K Hs Hm).
  - intro Hf. exact (reread_missing_date f v fmts K Hf Hm).
Qed.
Print Assumptions C01_field_missing.

(* dates at the resolution of their (first) format, for year >= 1000 *)
Theorem C01_field_date : forall f fmt r d, kind f = KDate (fmt :: r) ->
  wf_fmt fmt -> dom_dt d -> valid_dt (trunc fmt d) = true ->
  strip is_space (strftime fmt d) = strftime fmt d ->
  reread f (VDate d) = VDate (trunc fmt d).
Proof. exact reread_date. Qed.
Print Assumptions C01_field_date.

(* floats, F notation: the text is the configured-separator form of the fixed-point decimal N / 10^d with
   d <= declared decimals, N the exact half-even rounding of the value to d decimals; it reads back as the
   double nearest to that decimal ... *)
Theorem C01_float_decimal : forall f dd up sep s m e, kind f = KFloat dd false up sep -> (sep = [DOT] \/ sep = [44%N]) ->
  exists d, d <= dd /\
    float_text true (size f) dd false up sep (S754_finite s m e) =
      replace [DOT] sep (fixed_text s (round_dec m e (Z.of_nat d)) d) /\
    reread f (VFloat (S754_finite s m e)) = VFloat (sf_of_dec s (round_dec m e (Z.of_nat d)) (- Z.of_nat d)).
Proof. exact reread_float_fixed. Qed.
Print Assumptions C01_float_decimal.

(* ... and that decimal is within half a unit of its last emitted digit of the value, exactly:
   with value * 10^d = num / den,  2 * |N * den - num| <= den *)
Theorem C01_float_half_unit : forall m e d, let (num, den) := scaled m e d in
  (0 < num)%Z /\ (0 < den)%Z /\ (2 * Z.abs (round_dec m e d * den - num) <= den)%Z.
Proof.
  intros m e d. pose proof (scaled_pos m e d) as Hp. pose proof (round_dec_half_unit m e d) as Hh.
  destruct (scaled m e d) as [num den]. destruct Hp as [Hn Hd]. split; [exact Hn|split; [exact Hd|exact Hh]].
Qed.
Print Assumptions C01_float_half_unit.

(* floats, E notation. The code formats round(x, dd - floor(log10|x|)) -- a double, `sci_val x dd` in the model -- not x itself.
   (1) "{:.dE}".format(y) of any finite double y: the mantissa has exactly d+1 significant digits n, the exponent is e10, and
       n * 10^(e10 - d) is within half a unit of the last mantissa digit of y, exactly (a fact about fmtE). *)
Theorem C01_float_sci_shape : forall up s m e d, exists n e10,
  fmtE up (S754_finite s m e) d = sci_text up s n d e10 /\
  (10 ^ Z.of_nat d <= n < 10 ^ (Z.of_nat d + 1))%Z /\
  let (num, den) := scaled m e (Z.of_nat d - e10) in (2 * Z.abs (n * den - num) <= den)%Z.
Proof. exact fmtE_shape. Qed.
Print Assumptions C01_float_sci_shape.

(* (2) a field in E notation whose (untruncated) text fits: the write does not raise, the text is the configured-separator
       form of that rendering of round(x, ...), with the configured exponent letter, and it reads back as the double nearest
       to the emitted decimal. That the emitted decimal is within half a unit of x ITSELF for normal doubles and at most 15
       significant digits, and that it is NOT for subnormals / 16 digits, is in C01real.v (C01_float_sci_half_unit,
       C01_refuted_sci_half_unit_subnormal, C01_refuted_sci_half_unit_16_digits). *)
Theorem C01_float_sci : forall f dd up sep s m e, kind f = KFloat dd true up sep -> (sep = [DOT] \/ sep = [44%N]) ->
  fits f (VFloat (S754_finite s m e)) = true ->
  exists n e10, (n = 0 \/ 10 ^ Z.of_nat dd <= n)%Z /\ (0 <= n < 10 ^ (Z.of_nat dd + 1))%Z /\
    float_text true (size f) dd true up sep (S754_finite s m e) = replace [DOT] sep (sci_text up s n dd e10) /\
    fmtE up (sci_val (S754_finite s m e) dd) dd = sci_text up s n dd e10 /\
    reread f (VFloat (S754_finite s m e)) = VFloat (sf_of_dec s n (e10 - Z.of_nat dd)).
Proof. exact reread_float_sci_range. Qed.
Print Assumptions C01_float_sci.

Theorem C01_float_sci_fits_not_raises : forall f dd up sep x, kind f = KFloat dd true up sep ->
  fits f (VFloat x) = true -> missing (VFloat x) = false -> sci_raises x dd = false.
Proof. exact fits_not_raises. Qed.
Print Assumptions C01_float_sci_fits_not_raises.

(* when round() overflows (or the value is infinite) the write raises *)
Theorem C01_float_sci_raises : forall f dd upper sep x, kind f = KFloat dd true upper sep -> missing (VFloat x) = false ->
  sci_raises x dd = true -> render f (VFloat x) = None.
Proof. exact render_float_raises. Qed.
Print Assumptions C01_float_sci_raises.

(* zero (either sign) reads back as itself in both notations *)
Theorem C01_float_zero : forall f dd sci up sep s, kind f = KFloat dd sci up sep -> (sep = [DOT] \/ sep = [44%N]) ->
  fits f (VFloat (S754_zero s)) = true -> reread f (VFloat (S754_zero s)) = VFloat (S754_zero s).
Proof.
  intros f dd sci up sep s K Hs Hf. destruct sci.
  - exact (reread_float_sci_zero f dd up sep s K Hs Hf).
  - exact (reread_float_fixed_zero f dd up sep s K Hs).
Qed.
Print Assumptions C01_float_zero.

(* dialect: the only decimal mark a rendering can contain is the configured separator *)
Theorem C01_float_dialect : forall w dd up sep s m e, (sep = [DOT] \/ sep = [44%N]) ->
  let other := if N.eqb (hd 0%N sep) DOT then 44%N else DOT in
  ~ In other (float_text true w dd false up sep (S754_finite s m e)).
Proof. exact float_text_dialect. Qed.
Print Assumptions C01_float_dialect.

(* text stability: if every value is [stable_field] (rendering the re-read value gives the same rendering), writing
   what was read reproduces the identical text *)
Theorem C01_stable_line : forall st vs st' text st2 st3 text2,
  write_pos st vs = (st', Some text) -> length vs = length st ->
  disjoint (fields_of st) -> Forall (fun fv => fits (fst fv) (snd fv) = true) st' ->
  Forall (fun fv => stable_field (fst fv) (snd fv)) st' ->
  fields_of st2 = fields_of st ->
  write_pos st2 (values_of (read_pos st2 text)) = (st3, text2) -> text2 = Some text.
Proof. exact line_stable. Qed.
Print Assumptions C01_stable_line.

(* [stable_field] holds for integers, trimmed literals, missing values and dates ... *)
Theorem C01_stable_fields :
  (forall f z, kind f = KInt -> stable_field f (VInt z)) /\
  (forall f s, kind f = KLit -> strip is_space s = s -> stable_field f (VStr s)) /\
  (forall f v, missing v = true ->
     match kind f with KFloat _ _ _ sep => sep = [DOT] \/ sep = [44%N] | KDate fmts => Forall (fun fm => fm <> []) fmts | _ => True end ->
     stable_field f v) /\
  (forall f fmt r d, kind f = KDate (fmt :: r) -> wf_fmt fmt -> dom_dt d -> valid_dt (trunc fmt d) = true ->
     strip is_space (strftime fmt d) = strftime fmt d -> stable_field f (VDate d)).
Proof. split; [exact stable_int|split; [exact stable_lit|split; [exact stable_missing|exact stable_date]]]. Qed.
Print Assumptions C01_stable_fields.
(* ... for floats [stable_field] is proved in Properties/C01real.v, in both notations and for every finite binary64 whose
   text fits (C01_stable_float, C01_stable_float_sci, C01_stable_float_all): it needs the nearest-point property of IEEE
   rounding for the concrete [rn64], proved with Flocq, and therefore depends on the standard library's real-number axioms
   -- which is why it lives in its own file. *)

(* setters: the values read and the text written depend only on the final field objects, delimiter and storage,
   not on how they were installed (constructor or setters) nor on what the slots held *)
Theorem C01_setters :
  (forall o ss, let o' := fold_left apply_setter ss o in
     fields_of (lo_st o') = match last_fields ss with Some st => fields_of st | None => fields_of (lo_st o) end /\
     lo_delim o' = match last_delim ss with Some d => d | None => lo_delim o end /\
     lo_sto o' = match last_sto ss with Some s => s | None => lo_sto o end) /\
  (forall o1 o2 l, same_config o1 o2 -> snd (lo_read o1 l) = snd (lo_read o2 l)) /\
  (forall o1 o2 vs, same_config o1 o2 -> length (lo_st o1) <= length vs -> snd (lo_write o1 vs) = snd (lo_write o2 vs)) /\
  (forall o, lo_size o = fold_right (fun f a => size f + a) 0 (fields_of (lo_st o))).
Proof. split; [exact setters_config|split; [exact read_independent_of_slots|split; [exact write_independent_of_slots|exact line_size_setters]]]. Qed.
Print Assumptions C01_setters.

(* the code as found ignored the separator on write: a field declared with ',' emitted '.' *)
Theorem C01_refuted_separator :
  let f := {| kind := KFloat 1 false false [44%N]; size := 3; start := 0 |} in
  render_gen false f (VFloat (S754_zero false)) = Some (s2l "0.0"%string) /\
  render f (VFloat (S754_zero false)) = Some (s2l "0,0"%string).
Proof. vm_compute. split; reflexivity. Qed.

(* non-vacuity: a concrete two-field line *)
Example C01_example :
  let st := mk_state [ {| kind := KInt; size := 4; start := 6 |}; {| kind := KFloat 2 false true [DOT]; size := 6; start := 0 |} ] in
  snd (write_pos st [VInt 42; VFloat (sf_of_b64 4613217242300693873%Z)]) = Some (s2l "  2.68  42"%string ++ [NL]).
Proof. vm_compute. reflexivity. Qed.
