(* C08 — Container queries and bulk removal select exactly the matching members. Statements only. *)
From Coq Require Import ZArith NArith List Bool Arith.
From Cfi Require Import Glue.Sx Model.Dll Proofs.DllProofs.
Import ListNotations.

(* The queries are functions of the iteration order; by C07_iter the iteration order of a
   well-formed container is its abstract list l, so the statements are over l. *)

(* of_type: exactly the members that are instances of t, in container order (it is a filter) *)
Theorem C08_of_type : forall isinst l t,
  of_type isinst l t = filter (fun r => isinst r t) l /\
  forall r, In r (of_type isinst l t) <-> In r l /\ isinst r t = true.
Proof. intros isinst l t. split; [reflexivity|]. intro r. exact (of_type_spec isinst l t r). Qed.
Print Assumptions C08_of_type.

(* the filtered getter: members of type t whose named attributes equal every non-None filter value;
   shape None / the element / the list in order; it is a pure function of l (no state change) *)
Theorem C08_get : forall isinst attr l t kw,
  (forall r, In r (matching isinst attr l t kw) <-> In r l /\ isinst r t = true /\ meets attr kw r = true) /\
  matching isinst attr l t kw = filter (meets attr kw) (filter (fun r => isinst r t) l) /\
  get_of_type isinst attr l t kw =
    match matching isinst attr l t kw with [] => SNone | [r] => SOne r | rs => SMany rs end.
Proof.
  intros isinst attr l t kw. split; [|split; reflexivity].
  intro r. exact (matching_spec isinst attr l t kw r).
Qed.
Print Assumptions C08_get.

(* bulk removal, specification list: it is a sub-sequence (filter) of l that keeps every
   non-matching member ... *)
Theorem C08_remove_keeps : forall isinst attr l t kw,
  exists f, remove_of_type_spec isinst attr l t kw = filter f l /\
            (forall r, In r l -> (isinst r t && meets attr kw r) = false -> f r = true).
Proof. exact remove_spec_is_filter. Qed.
Print Assumptions C08_remove_keeps.

(* ... and contains no matching member except possibly the container's first element *)
Theorem C08_remove_drops : forall isinst attr l t kw r, NoDup l ->
  In r (remove_of_type_spec isinst attr l t kw) -> isinst r t = true -> meets attr kw r = true ->
  hd_opt l = Some r.
Proof. exact remove_spec_no_match_left. Qed.
Print Assumptions C08_remove_drops.

(* the code (repaired: the first element is recognised by identity) refines that specification
   on every well-formed container, and leaves it well-formed *)
Theorem C08_remove_refines : forall isinst attr s l fuel t kw,
  wf s l -> length l <= fuel ->
  remove_of_type_spec isinst attr l t kw <> [] ->
  wf (remove_of_type isinst attr Nat.eqb true s fuel t kw) (remove_of_type_spec isinst attr l t kw).
Proof. exact remove_of_type_wf. Qed.
Print Assumptions C08_remove_refines.

(* the code as found (first element recognised by value equality) spares value-equal matches *)
Theorem C08_refuted_value_equality :
  let same := fun a b : nat => true in
  let isinst := fun (r t : nat) => true in
  let attr := fun (r k : nat) => @None Z in
  exists s l, wf s l /\
    iter (remove_of_type isinst attr same true s 9 0 []) 9 <> remove_of_type_spec isinst attr l 0 [].
Proof.
  destruct (run_wf [OAppend 1; OAppend 2] (singleton init_heap 0) [0]) as (s & Hrun & Hwf).
  - apply wf_singleton; reflexivity.
  - simpl. intuition congruence.
  - exists s, [0; 1; 2]. split; [exact Hwf|].
    vm_compute in Hrun. injection Hrun as <-. vm_compute. discriminate.
Qed.

Example C08_example :
  let isinst := fun (r t : nat) => Nat.eqb (r mod 2) t in
  let attr := fun (r k : nat) => Some (Z.of_nat r) in
  remove_of_type_spec isinst attr [1; 2; 3; 4; 5] 1 [] = [1; 2; 4] /\
  get_of_type isinst attr [1; 2; 3; 4; 5] 0 [(0, Some 4%Z)] = SOne 4.
Proof. vm_compute. split; reflexivity. Qed.
