(* C03 — Reading a field is total, local to its span, and follows the declared format. Statements only.
   Totality: [field_read] and [field_read_bin] are total Gallina functions into [value]; every
   ValueError of the Python primitives (int(), float(), strptime, UTF-8 decoding, short numpy buffers)
   is the [None] branch of the corresponding model primitive and is mapped to [VNone], exactly as
   Field.read's try/except does. *)
From Coq Require Import String ZArith NArith List Bool Arith.
From Coq Require Import Floats.SpecFloat.
From Cfi Require Import Glue.Sx Py.PyStr Py.PyNum Py.PyBits Py.PyDate Model.Field Model.Line Proofs.FieldProofs.
Import ListNotations.

(* the value is the reference interpretation of the span: integer literal; float literal after
   mapping the configured separator to '.'; first declared date format that parses the trimmed span;
   trimmed text -- or VNone when the span is not a valid literal *)
Theorem C03_reference : forall f l, field_read f l = interp (kind f) (span f l).
Proof. exact field_read_reference. Qed.
Print Assumptions C03_reference.

Theorem C03_reference_bytes : forall f l, field_read_bin f l = interp_bin f (span f l).
Proof. exact field_read_bin_reference. Qed.
Print Assumptions C03_reference_bytes.

(* locality: two lines that agree on the span read the same *)
Theorem C03_local : forall f l1 l2, span f l1 = span f l2 -> field_read f l1 = field_read f l2.
Proof. exact field_read_local. Qed.
Print Assumptions C03_local.

Theorem C03_local_bytes : forall f l1 l2, span f l1 = span f l2 -> field_read_bin f l1 = field_read_bin f l2.
Proof. exact field_read_bin_local. Qed.
Print Assumptions C03_local_bytes.

(* a line shorter than the span is read as the truncated (possibly empty) span *)
Theorem C03_short : forall f (l : str),
  length (span f l) = Nat.min (size f) (length l - start f) /\ (length l <= start f -> span f l = []).
Proof. intros f l. split; [exact (span_length f l)|exact (span_short f l)]. Qed.
Print Assumptions C03_short.

(* whatever lies outside the span never influences the value *)
Theorem C03_outside_irrelevant : forall f (pre pre' mid post post' : str),
  length pre = start f -> length pre' = start f -> length mid = size f ->
  field_read f (pre ++ mid ++ post) = field_read f (pre' ++ mid ++ post').
Proof. exact span_outside_irrelevant. Qed.
Print Assumptions C03_outside_irrelevant.

(* successive reads through the same field objects: the values returned for a line are the per-field
   readings of that line, whatever the slots held (a failed parse leaves VNone, never the old value) *)
Theorem C03_no_carry_over : forall st l,
  values_of (read_pos st l) = map (fun f => field_read f l) (fields_of st) /\
  values_of (read_bin st l) = map (fun f => field_read_bin f l) (fields_of st).
Proof. intros st l. split; [exact (read_pos_values st l)|exact (read_bin_values st l)]. Qed.
Print Assumptions C03_no_carry_over.

(* non-vacuity *)
Example C03_example :
  let f := {| kind := KInt; size := 3; start := 2 |} in
  field_read f (s2l "xx 42yy"%string) = VInt 42 /\ field_read f (s2l "xx4"%string) = VInt 4 /\ field_read f (s2l "xx4_"%string) = VNone.
Proof. vm_compute. repeat split; reflexivity. Qed.
