(* C09 — Binary fields round-trip exactly and keep the record width. Statements only. *)
From Coq Require Import String ZArith NArith List Bool Arith.
From Coq Require Import Floats.SpecFloat.
From Cfi Require Import Glue.Sx Py.PyStr Py.PyNum Py.PyBits Py.PyDate Model.Field Model.Line.
From Cfi Require Import Proofs.FieldProofs Proofs.BitsProofs.
Import ListNotations.

(* every in-range integer survives write/read exactly, for every width (2, 4, 8 are instances) *)
Theorem C09_int_roundtrip : forall n z, (0 < n)%nat ->
  (- 2 ^ (8 * Z.of_nat n - 1) <= z < 2 ^ (8 * Z.of_nat n - 1))%Z ->
  exists bs, int_enc n z = Some bs /\ length bs = n /\ Forall is_byte bs /\ int_dec n bs = Some z.
Proof. exact int_bin_roundtrip. Qed.
Print Assumptions C09_int_roundtrip.

(* every n-byte pattern survives read/write unchanged: all 65 536 two-byte patterns are the instance
   length bs = 2 -- proved for every length, not enumerated *)
Theorem C09_int_patterns : forall bs, bs <> [] -> Forall is_byte bs ->
  exists z, int_dec (length bs) bs = Some z /\ int_enc (length bs) z = Some bs.
Proof. exact int_bin_patterns. Qed.
Print Assumptions C09_int_patterns.

(* an integer field of width 2/4/8 reads back what it wrote *)
Theorem C09_int_field : forall f z t, kind f = KInt -> (size f = 2 \/ size f = 4 \/ size f = 8)%nat ->
  render_bin f (VInt z) = Some t -> interp_bin f t = VInt z.
Proof. exact int_field_bin_roundtrip. Qed.
Print Assumptions C09_int_field.

(* out-of-range integers are rejected, short buffers are ValueError (-> None), only the leading bytes count *)
Theorem C09_int_edges :
  (forall n z, ~ (- 2 ^ (8 * Z.of_nat n - 1) <= z < 2 ^ (8 * Z.of_nat n - 1))%Z -> int_enc n z = None) /\
  (forall n bs, (length bs < n)%nat -> int_dec n bs = None) /\
  (forall n bs extra, length bs = n -> int_dec n (bs ++ extra) = int_dec n bs).
Proof. split; [exact int_enc_overflow|split; [exact int_dec_short|exact int_dec_prefix]]. Qed.
Print Assumptions C09_int_edges.

(* floats: encodings are exactly n bytes; every non-NaN bit pattern of the three IEEE formats survives
   decode/encode at the bit level *)
Theorem C09_float_width : forall n x, length (float_enc n x) = n /\ Forall is_byte (float_enc n x).
Proof. intros n x. split; [exact (float_enc_length n x)|exact (float_enc_bytes n x)]. Qed.
Print Assumptions C09_float_width.

Theorem C09_float_bits_roundtrip : forall mw ew b, fmt_ok mw ew -> non_nan_bits mw ew b ->
  bits_of_sf mw ew (sf_of_bits mw ew b) = b.
Proof. exact bits_roundtrip. Qed.
Print Assumptions C09_float_bits_roundtrip.
(* The statement "a float reads back as the value rounded to the field's IEEE width" is carried by the model's
   definition float_enc = bits (SpecFloat.binary_normalize to the format) and is tied to numpy bit for bit by the
   correspondence check (all float16 patterns, random float32/64 patterns, subnormals, overflow to inf); that
   SpecFloat.binary_normalize is IEEE round-to-nearest-even is Flocq's theorem, not re-proved here. *)

(* missing numeric values are stored as zero, missing text as blanks *)
Theorem C09_missing :
  (forall f v, kind f = KInt -> missing v = true -> render_bin f v = Some (repeat 0%N (num_width f))) /\
  (forall f v dd sci up sep, kind f = KFloat dd sci up sep -> missing v = true -> render_bin f v = Some (repeat 0%N (num_width f))) /\
  (forall f v, (kind f = KLit \/ exists fm, kind f = KDate fm) -> missing v = true -> render_bin f v = Some (pad (size f))).
Proof. split; [exact render_bin_missing_int|split; [exact render_bin_missing_float|exact render_bin_missing_text]]. Qed.
Print Assumptions C09_missing.

(* numeric fields of width 2/4/8 always fit; a binary line is exactly as long as the furthest field end, each
   field's bytes inside its own span, gaps blank *)
Theorem C09_line_width :
  (forall f v t, (size f = 2 \/ size f = 4 \/ size f = 8)%nat ->
     (kind f = KInt \/ exists dd sci up sep, kind f = KFloat dd sci up sep) -> render_bin f v = Some t -> fits_bin f v = true) /\
  (forall st vs st' body, write_bin st vs = (st', Some body) ->
     Forall (fun fv => fits_bin (fst fv) (snd fv) = true) st' ->
     length body = max_stop (fields_of st) /\
     forall i, i < length body -> ~ covered (fields_of st) i -> nth_error body i = Some SP) /\
  (forall f v l l', fits_bin f v = true -> field_write_bin f v l = Some l' ->
     exists t, render_bin f v = Some t /\ span f l' = t).
Proof.
  split; [exact fits_bin_numeric|split; [exact write_bin_shape|]].
  intros f v l l' Hf Hw. destruct (field_write_bin_frame f v l l' Hf Hw) as (_ & Ht & _). exact Ht.
Qed.
Print Assumptions C09_line_width.

Example C09_example :
  int_enc 2 (-2)%Z = Some [254%N; 255%N] /\ int_dec 2 [254%N; 255%N] = Some (-2)%Z /\
  float_enc 4 (sf_of_b64 4637117282573195674%Z) = [205%N; 204%N; 210%N; 66%N].
Proof. vm_compute. repeat split; reflexivity. Qed.
