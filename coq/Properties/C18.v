(* C18 — Reading terminates: every step consumes input. Statements only.
   The reading loops are fuelled functions; "terminates" = the result with fuel |content|+1 is not the
   out-of-fuel value None. *)
From Coq Require Import String ZArith NArith List Bool Arith.
From Coq Require Import Floats.SpecFloat.
From Cfi Require Import Glue.Sx Py.PyStr Py.PyNum Py.PyBits Py.PyDate Model.Field Model.Line Model.Reader.
From Cfi Require Import Proofs.ReaderProofs.
Import ListNotations.

(* the general argument: if every element reader returns a split of its input and consumes at least one character
   of a non-empty input, and there is nothing to peek at the end of the input, the loop terminates within
   |input|+1 steps and creates at most |input| elements *)
Theorem C18_generic_progress : forall (T : Type) (peek : str -> str) (dispatch : str -> option T)
    (read_typed : T -> str -> str * str) (read_default : str -> str * str),
  (forall t s c rest, reader T read_typed read_default t s = (c, rest) -> s = c ++ rest) ->
  (forall t s c rest, s <> [] -> reader T read_typed read_default t s = (c, rest) -> c <> []) ->
  peek [] = [] ->
  (forall fuel s, length s < fuel -> exists es, read_loop peek dispatch read_typed read_default fuel s = Some es) /\
  (forall s es, loop_rel T peek dispatch read_typed read_default s es -> length es <= length s).
Proof.
  intros T peek dispatch rt rd Hsplit Hprog Hend. split.
  - exact (loop_total T peek dispatch rt rd Hsplit Hprog Hend).
  - exact (loop_count T peek dispatch rt rd Hsplit Hprog).
Qed.
Print Assumptions C18_generic_progress.

(* register files, text storage: terminates for every register list and content; one element per line *)
Theorem C18_text_register : forall fr fd ls rs s,
  (exists es, read_regfile fr fd Text ls rs (S (length s)) s = Some es) /\
  (forall fuel es, read_regfile fr fd Text ls rs fuel s = Some es ->
     length es = length (split_lines s) /\ length es <= length s).
Proof.
  intros fr fd ls rs s. split; [exact (regfile_text_total fr fd ls rs s)|].
  intros fuel es H. exact (regfile_text_count fr fd ls rs fuel s es H).
Qed.
Print Assumptions C18_text_register.

(* register files, binary storage (repaired code): terminates, at most one element per byte, nothing lost, for
   every content including bytes that match nothing and truncated records -- provided the peek window and every
   declared record are at least one byte wide *)
Theorem C18_binary_register : forall ls rs s, 0 < ls ->
  Forall (fun r => 0 < composite_size r) rs ->
  exists es, read_regfile true true Binary ls rs (S (length s)) s = Some es /\ length es <= length s /\
             concat (map snd es) = s.
Proof. exact regfile_binary_total. Qed.
Print Assumptions C18_binary_register.

(* block files, text and binary *)
Theorem C18_block : forall us sto bs s,
  (exists es, read_blockfile us sto bs (S (length s)) s = Some es) /\
  (forall fuel es, read_blockfile us sto bs fuel s = Some es -> length es <= length s).
Proof.
  intros us sto bs s. split; [exact (blockfile_total us sto bs s)|].
  intros fuel es H. exact (blockfile_count us sto bs fuel s es H).
Qed.
Print Assumptions C18_block.

(* section files: declared sections are read unconditionally, so the bound is |declared| + |content| *)
Theorem C18_section : forall ds s, exists es,
  read_sectionfile ds (S (length s)) s = Some es /\ length es <= length ds + length s.
Proof.
  intros ds s. destruct (sectionfile_spec ds s) as (es & H & _ & _ & _ & Hc). exists es. split; assumption.
Qed.
Print Assumptions C18_section.

(* the code as found did not terminate on a byte that matches nothing: for EVERY fuel the loop runs out of it *)
Theorem C18_refuted_binary_default : forall fuel, read_regfile true false Binary 1 [] fuel [0%N] = None.
Proof. exact regfile_binary_as_found_diverges. Qed.

Example C18_example :
  read_regfile true true Binary 1 [] 5 [0%N; 7%N; 10%N; 9%N] = Some [(None, [0%N; 7%N; 10%N]); (None, [9%N])].
Proof. vm_compute. reflexivity. Qed.
