(* C02 — Fixed-width layout discipline: a write touches only its own columns. Statements only.
   str lines and bytes lines share [splice], [ljust], [span]; "blank" is code 32 in both. *)
From Coq Require Import String ZArith NArith List Bool Arith.
From Coq Require Import Floats.SpecFloat.
From Cfi Require Import Glue.Sx Py.PyStr Py.PyNum Py.PyBits Py.PyDate Model.Field Model.Line Proofs.FieldProofs.
Import ListNotations.

(* writing a field whose value fits: the line grows to max(len, span end); the span holds the
   rendering; every other position holds what the blank-padded input line held *)
Theorem C02_field_frame : forall f v l l', fits f v = true -> field_write f v l = Some l' ->
  length l' = Nat.max (length l) (stop f) /\
  (exists t, render f v = Some t /\ span f l' = t) /\
  (forall i, (i < start f \/ stop f <= i) ->
     nth_error l' i = nth_error (if Nat.ltb (length l) (stop f) then ljust (stop f) l else l) i).
Proof. exact field_write_frame. Qed.
Print Assumptions C02_field_frame.

Theorem C02_field_frame_bytes : forall f v l l', fits_bin f v = true -> field_write_bin f v l = Some l' ->
  length l' = Nat.max (length l) (stop f) /\
  (exists t, render_bin f v = Some t /\ span f l' = t) /\
  (forall i, (i < start f \/ stop f <= i) ->
     nth_error l' i = nth_error (if Nat.ltb (length l) (stop f) then ljust (stop f) l else l) i).
Proof. exact field_write_bin_frame. Qed.
Print Assumptions C02_field_frame_bytes.

(* padding a shorter target line only appends blanks *)
Theorem C02_padding : forall n l i,
  nth_error (ljust n l) i = if Nat.ltb i (length l) then nth_error l i else if Nat.ltb i n then Some SP else None.
Proof. exact ljust_spec. Qed.
Print Assumptions C02_padding.

(* a rendering is never narrower than the field, and exactly as wide when the value fits *)
Theorem C02_width : forall f v,
  (forall t, render f v = Some t -> size f <= length t) /\
  (fits f v = true -> exists t, render f v = Some t /\ length t = size f).
Proof. intros f v. split; [exact (render_width_ge f v)|exact (fits_width f v)]. Qed.
Print Assumptions C02_width.

(* numbers right-justified (blanks, then a body without blanks for integers), literals and dates
   left-justified *)
Theorem C02_justify_text :
  (forall f z, kind f = KInt ->
     render f (VInt z) = Some (pad (size f - length (str_of_Z z)) ++ str_of_Z z) /\ ~ In SP (str_of_Z z)) /\
  (forall f dd sci upper sep x, kind f = KFloat dd sci upper sep -> missing (VFloat x) = false ->
     sci && sci_raises x dd = false ->   (* E notation: round() did not overflow (then the write raises: C02_float_raises) *)
     let body := float_text true (size f) dd sci upper sep x in
     render f (VFloat x) = Some (pad (size f - length body) ++ body)) /\
  (forall f s, kind f = KLit -> render f (VStr s) = Some (s ++ pad (size f - length s))) /\
  (forall f fmt r d, kind f = KDate (fmt :: r) ->
     render f (VDate d) = Some (strftime fmt d ++ pad (size f - length (strftime fmt d)))).
Proof. split; [exact render_int|split; [exact render_float|split; [exact render_lit|exact render_date]]]. Qed.
Print Assumptions C02_justify_text.

(* missing values (None / NaN / NaT) are all blanks *)
Theorem C02_missing_blank : forall f v, missing v = true -> render f v = Some (pad (size f)).
Proof. exact render_missing. Qed.
Print Assumptions C02_missing_blank.

(* a written text line is as long as the furthest field end plus one newline, with blank gaps;
   a binary line has the same length without a terminator (any field order, overlaps allowed) *)
Theorem C02_line_shape : forall st vs st' text,
  write_pos st vs = (st', Some text) ->
  Forall (fun fv => fits (fst fv) (snd fv) = true) st' ->
  exists body, text = body ++ [NL] /\ length body = max_stop (fields_of st) /\
    forall i, i < length body -> ~ covered (fields_of st) i -> nth_error body i = Some SP.
Proof. exact write_pos_shape. Qed.
Print Assumptions C02_line_shape.

Theorem C02_line_shape_bytes : forall st vs st' body,
  write_bin st vs = (st', Some body) ->
  Forall (fun fv => fits_bin (fst fv) (snd fv) = true) st' ->
  length body = max_stop (fields_of st) /\
    forall i, i < length body -> ~ covered (fields_of st) i -> nth_error body i = Some SP.
Proof. exact write_bin_shape. Qed.
Print Assumptions C02_line_shape_bytes.

(* the documented default geometry (literal 80, integer 8, float 8 with 4 decimals in F notation,
   date 16 with %Y/%m/%d, all at column 0) renders as follows; the constructor defaults themselves are
   compared attribute by attribute with these constants by the correspondence check *)
Definition default_lit : field := {| kind := KLit; size := 80; start := 0 |}.
Definition default_int : field := {| kind := KInt; size := 8; start := 0 |}.
Definition default_float : field := {| kind := KFloat 4 false true [DOT]; size := 8; start := 0 |}.
Definition default_date : field := {| kind := KDate [[TY; TLit 47%N; TMo; TLit 47%N; TD]]; size := 16; start := 0 |}.
Theorem C02_defaults :
  field_write default_int (VInt 12%Z) [] = Some (s2l "      12"%string) /\
  field_write default_float (VFloat (sf_of_b64 4609434218613702656%Z)) [] = Some (s2l "  1.5000"%string) /\
  field_write default_lit (VStr (s2l "ab"%string)) [] = Some (ljust 80 (s2l "ab"%string)) /\
  field_write default_date (VDate {| dY := 2021; dMo := 3; dD := 4; dH := 0; dMi := 0; dS := 0; dUs := 0 |}) []
    = Some (ljust 16 (s2l "2021/03/04"%string)).
Proof. repeat split; vm_compute; reflexivity. Qed.
Print Assumptions C02_defaults.
