(* L0: numpy's fixed-width little-endian integer and IEEE-754 encodings (tobytes/frombuffer)
   for the dtypes cfi uses: int16/32/64 and float16/32/64. Definitions only. *)
From Coq Require Import ZArith NArith List Bool Arith.
From Coq Require Import Floats.SpecFloat.
From Cfi Require Import Glue.Sx.
Import ListNotations.
Local Open Scope Z_scope.

Fixpoint le_bytes (n : nat) (z : Z) : list N :=
  match n with
  | O => []
  | S k => Z.to_N (z mod 256) :: le_bytes k (z / 256)
  end.
Fixpoint le_value (bs : list N) : Z :=
  match bs with
  | [] => 0
  | b :: r => Z.of_N b + 256 * le_value r
  end.

(* np.array([z], dtype=int<8n>).tobytes(); None = OverflowError (numpy 2) *)
Definition int_enc (n : nat) (z : Z) : option (list N) :=
  let w := 8 * Z.of_nat n in
  if (- 2 ^ (w - 1) <=? z) && (z <? 2 ^ (w - 1)) then Some (le_bytes n (z mod 2 ^ w)) else None.

(* int(np.frombuffer(bs, dtype=int<8n>, count=1)[0]); None = ValueError (buffer too small) *)
Definition int_dec (n : nat) (bs : list N) : option Z :=
  if Nat.ltb (length bs) n then None
  else
    let w := 8 * Z.of_nat n in
    let v := le_value (firstn n bs) in
    Some (if v <? 2 ^ (w - 1) then v else v - 2 ^ w).

(* IEEE interchange formats: mw mantissa bits, ew exponent bits *)
Section Fmt.
  Variables mw ew : Z.
  Definition fprec := mw + 1.
  Definition femax := 2 ^ (ew - 1).
  Definition femin := 3 - femax - fprec.

  Definition sign_bit (s : bool) : Z := if s then 2 ^ (mw + ew) else 0.

  Definition bits_of_sf (x : spec_float) : Z :=
    match x with
    | S754_zero s => sign_bit s
    | S754_infinity s => sign_bit s + (2 ^ ew - 1) * 2 ^ mw
    | S754_nan => (2 ^ ew - 1) * 2 ^ mw + 2 ^ (mw - 1)
    | S754_finite s m e =>
        if Zpos m <? 2 ^ mw then sign_bit s + Zpos m
        else sign_bit s + (e - femin + 1) * 2 ^ mw + (Zpos m - 2 ^ mw)
    end.

  Definition sf_of_bits (b : Z) : spec_float :=
    let s := (b / 2 ^ (mw + ew)) mod 2 =? 1 in
    let ex := (b / 2 ^ mw) mod 2 ^ ew in
    let mant := b mod 2 ^ mw in
    if ex =? 0 then
      match mant with
      | Zpos p => S754_finite s p femin
      | _ => S754_zero s
      end
    else if ex =? 2 ^ ew - 1 then (if mant =? 0 then S754_infinity s else S754_nan)
    else match mant + 2 ^ mw with
         | Zpos p => S754_finite s p (ex + femin - 1)
         | _ => S754_zero s
         end.

  (* round a (finite, arbitrary-mantissa) value to this format, nearest-even: the conversion numpy
     performs when storing a Python float into an array of this dtype *)
  Definition sf_round (x : spec_float) : spec_float :=
    match x with
    | S754_finite s m e => binary_normalize fprec femax (if s then Zneg m else Zpos m) e s
    | _ => x
    end.
End Fmt.

Definition b64_of_sf := bits_of_sf 52 11.
Definition sf_of_b64 := sf_of_bits 52 11.

(* width in bytes -> (mw, ew); 2, 4, 8 *)
Definition fmt_of_width (n : nat) : Z * Z :=
  match n with
  | 2%nat => (10, 5)
  | 8%nat => (52, 11)
  | _ => (23, 8)
  end.

(* np.array([x], dtype=float<8n>).tobytes() for a binary64 x *)
Definition float_enc (n : nat) (x : spec_float) : list N :=
  let (mw, ew) := fmt_of_width n in
  le_bytes n (bits_of_sf mw ew (sf_round mw ew x)).

(* float(np.frombuffer(bs, dtype=float<8n>, count=1)[0]) as a canonical binary64 *)
Definition float_dec (n : nat) (bs : list N) : option spec_float :=
  if Nat.ltb (length bs) n then None
  else
    let (mw, ew) := fmt_of_width n in
    Some (sf_round 52 11 (sf_of_bits mw ew (le_value (firstn n bs)))).
