(* L0: CPython 3.12 text codecs (strict error handler) and the universal-newline translation of
   text-mode open(). Strings are lists of code points, byte strings are lists of values < 256; a
   "byte" >= 256 is rejected by every decoder. None = UnicodeEncodeError / UnicodeDecodeError.
   Definitions only (the proofs are in Proofs/CodecProofs.v); every function was compared with
   /venv/bin/python on generated inputs, malformed ones included. *)
From Coq Require Import ZArith NArith List Bool Arith.
From Cfi Require Import Glue.Sx Py.PyStr.
Import ListNotations.
Local Open Scope N_scope.

(* element-wise partial map: fails as soon as one element fails *)
Fixpoint map_opt {A B : Type} (f : A -> option B) (l : list A) : option (list B) :=
  match l with
  | [] => Some []
  | a :: r => match f a, map_opt f r with
              | Some b, Some r' => Some (b :: r')
              | _, _ => None
              end
  end.

(* ---- latin-1 (iso8859-1): code point n <-> byte n *)
Definition latin1_char (c : N) : option N := if c <? 256 then Some c else None.
Definition latin1_encode (s : str) : option (list N) := map_opt latin1_char s.
Definition latin1_decode (bs : list N) : option str := map_opt latin1_char bs.

(* ---- cp1252 as in CPython's Lib/encodings/cp1252.py: 0x00-0x7F and 0xA0-0xFF are the identity, 0x80-0x9F go
   through the table below; 0x81 0x8D 0x8F 0x90 0x9D are undefined (decoding raises; U+0081 etc. cannot be
   encoded). Pairs are (byte, code point). *)
Definition cp1252_table : list (N * N) :=
  [ (128, 8364); (130, 8218); (131, 402); (132, 8222); (133, 8230); (134, 8224); (135, 8225);
    (136, 710); (137, 8240); (138, 352); (139, 8249); (140, 338); (142, 381);
    (145, 8216); (146, 8217); (147, 8220); (148, 8221); (149, 8226); (150, 8211); (151, 8212);
    (152, 732); (153, 8482); (154, 353); (155, 8250); (156, 339); (158, 382); (159, 376) ].

Definition cp1252_decode_byte (b : N) : option N :=
  if b <? 128 then Some b
  else if b <? 160 then option_map snd (find (fun p => fst p =? b) cp1252_table)
  else if b <? 256 then Some b
  else None.

Definition cp1252_encode_char (c : N) : option N :=
  if c <? 128 then Some c
  else if (160 <=? c) && (c <? 256) then Some c
  else option_map fst (find (fun p => snd p =? c) cp1252_table).

Definition cp1252_decode (bs : list N) : option str := map_opt cp1252_decode_byte bs.
Definition cp1252_encode (s : str) : option (list N) := map_opt cp1252_encode_char s.

(* ---- utf-16 (the BOM-writing / BOM-sniffing codec, on a little-endian machine) *)

(* code point -> UTF-16 code units; lone surrogates and values above U+10FFFF cannot be encoded *)
Definition utf16_units_of_char (c : N) : option (list N) :=
  if c <? 55296 then Some [c]
  else if c <? 57344 then None
  else if c <? 65536 then Some [c]
  else if c <? 1114112 then Some [55296 + (c - 65536) / 1024; 56320 + (c - 65536) mod 1024]
  else None.

Definition le_bytes (u : N) : list N := [u mod 256; u / 256].

Definition utf16_encode_char (c : N) : option (list N) :=
  option_map (flat_map le_bytes) (utf16_units_of_char c).

(* utf-16-le, no BOM *)
Fixpoint utf16le_encode (s : str) : option (list N) :=
  match s with
  | [] => Some []
  | c :: r => match utf16_encode_char c, utf16le_encode r with
              | Some a, Some b => Some (a ++ b)
              | _, _ => None
              end
  end.

(* s.encode('utf-16'): BOM FF FE, then utf-16-le; ''.encode('utf-16') == b'\xff\xfe' *)
Definition utf16_encode (s : str) : option (list N) :=
  option_map (fun b => 255 :: 254 :: b) (utf16le_encode s).

(* bytes -> 16-bit code units ([be] = big endian); an odd number of bytes is "truncated data" *)
Fixpoint utf16_units (be : bool) (bs : list N) : option (list N) :=
  match bs with
  | [] => Some []
  | b0 :: b1 :: r =>
      if (b0 <? 256) && (b1 <? 256)
      then option_map (cons (if be then b0 * 256 + b1 else b1 * 256 + b0)) (utf16_units be r)
      else None
  | [_] => None
  end.

(* code units -> code points: a high surrogate must be followed by a low one, a low one may not come first *)
Fixpoint utf16_join (us : list N) : option str :=
  match us with
  | [] => Some []
  | u :: r =>
      if (u <? 55296) || (57343 <? u) then option_map (cons u) (utf16_join r)
      else if u <? 56320 then
        match r with
        | u2 :: r' =>
            if (56320 <=? u2) && (u2 <? 57344)
            then option_map (cons (65536 + (u - 55296) * 1024 + (u2 - 56320))) (utf16_join r')
            else None
        | [] => None
        end
      else None
  end.

Definition utf16_decode_units (be : bool) (bs : list N) : option str :=
  match utf16_units be bs with
  | Some us => utf16_join us
  | None => None
  end.

(* reading a file opened with encoding='utf-16' (CPython's incremental decoder, encodings/utf_16.py): FF FE -> little-endian,
   FE FF -> big-endian (BOM consumed); a non-empty stream that does not start with a BOM is an error ("UTF-16 stream does
   not start with BOM" -- unlike bytes.decode('utf-16'), which falls back to the native byte order). Only the first BOM is
   consumed (a second one decodes to U+FEFF). *)
Definition utf16_decode (bs : list N) : option str :=
  match bs with
  | [] => Some []
  | b0 :: b1 :: r =>
      if (b0 =? 255) && (b1 =? 254) then utf16_decode_units false r
      else if (b0 =? 254) && (b1 =? 255) then utf16_decode_units true r
      else None
  | _ => None
  end.

(* ---- universal newlines: what open(path, "r") (newline=None) does to the decoded text when reading *)
Definition CR : N := 13.
Fixpoint translate_nl (s : str) : str :=
  match s with
  | [] => []
  | c :: r =>
      if c =? CR then
        NL :: match r with
              | d :: r' => if d =? NL then translate_nl r' else translate_nl r
              | [] => []
              end
      else c :: translate_nl r
  end.

(* ---- the encodings C16 quantifies over *)
Inductive encoding := Utf8 | Latin1 | Cp1252 | Utf16.

Definition encode_with (e : encoding) (s : str) : option (list N) :=
  match e with
  | Utf8 => utf8_encode s
  | Latin1 => latin1_encode s
  | Cp1252 => cp1252_encode s
  | Utf16 => utf16_encode s
  end.

Definition decode_with (e : encoding) (bs : list N) : option str :=
  match e with
  | Utf8 => utf8_decode bs
  | Latin1 => latin1_decode bs
  | Cp1252 => cp1252_decode bs
  | Utf16 => utf16_decode bs
  end.

(* ---- entry point for extraction / correspondence: (op enc data)
   op 0: encode (data = str; result = option of byte list)
   op 1: decode (data = byte list, given like a str; result = option of str)
   op 2: translate_nl (enc ignored)
   enc 0..3 = utf-8, latin-1, cp1252, utf-16 *)
Definition encoding_of_Z (z : Z) : option encoding :=
  match z with
  | 0%Z => Some Utf8
  | 1%Z => Some Latin1
  | 2%Z => Some Cp1252
  | 3%Z => Some Utf16
  | _ => None
  end.

Definition run_codec (arg : sx) : sx :=
  let data := sxS (sxnth 2 arg) in
  match sxZ (sxnth 0 arg), encoding_of_Z (sxZ (sxnth 1 arg)) with
  | 0%Z, Some e => Sopt (fun l => L (map SN l)) (encode_with e data)
  | 1%Z, Some e => Sopt Sstr (decode_with e data)
  | 2%Z, _ => Sstr (translate_nl data)
  | _, _ => L [I (-998)%Z]
  end.
