(* L0: datetime.strftime / datetime.strptime for the numeric directive subset
   %Y %m %d %H %M %S %f, literal (non-letter) characters and whitespace.
   strptime is CPython's regex-based parser: every directive is an ordered alternation, the
   whole pattern is matched with backtracking (first match in depth-first order), and the
   match must consume the whole string. Definitions only. *)
From Coq Require Import ZArith NArith List Bool Arith.
From Cfi Require Import Glue.Sx Py.PyStr Py.PyNum.
Import ListNotations.
Local Open Scope Z_scope.

Record dt := { dY : Z; dMo : Z; dD : Z; dH : Z; dMi : Z; dS : Z; dUs : Z }.

Inductive dtok :=
| TY | TMo | TD | TH | TMi | TS | TF
| TLit (c : N)          (* a literal non-letter, non-space character; "%%" is TLit 37 *)
| TWs (ws : str).       (* a maximal run of whitespace in the format *)

(* ---------- strftime *)
Definition two (z : Z) : str := zpad 2 (dec_digits z).
Definition fmt_tok (d : dt) (t : dtok) : str :=
  match t with
  | TY => dec_digits (dY d)          (* glibc: no padding; 4 digits exactly when year >= 1000 *)
  | TMo => two (dMo d)
  | TD => two (dD d)
  | TH => two (dH d)
  | TMi => two (dMi d)
  | TS => two (dS d)
  | TF => zpad 6 (dec_digits (dUs d))
  | TLit c => [c]
  | TWs ws => ws
  end.
Definition strftime (fmt : list dtok) (d : dt) : str := concat (map (fmt_tok d) fmt).

(* ---------- strptime *)
(* character classes of the regexes *)
Definition udigit (c : N) : option Z := option_map Z.of_N (digit_val c).          (* \d *)
Definition adigit (lo hi : N) (c : N) : option Z :=                                (* [lo-hi], ASCII *)
  if ((48 + lo <=? c) && (c <=? 48 + hi))%N then Some (Z.of_N (c - 48)) else None.

(* an alternative: a list of per-character classes; the value is the decimal reading *)
Definition alt := list (N -> option Z).
Fixpoint match_alt (a : alt) (s : str) (acc : Z) : option (Z * str) :=
  match a with
  | [] => Some (acc, s)
  | cls :: a' =>
      match s with
      | c :: r => match cls c with
                  | Some v => match_alt a' r (acc * 10 + v)
                  | None => None
                  end
      | [] => None
      end
  end.
Definition lit (n : N) : N -> option Z := adigit n n.
Definition space_cls : N -> option Z := fun c => if (c =? 32)%N then Some 0 else None.

Definition alts_of (t : dtok) : list alt :=
  match t with
  | TY => [[udigit; udigit; udigit; udigit]]
  | TMo => [[lit 1; adigit 0 2]; [lit 0; adigit 1 9]; [adigit 1 9]]
  | TD => [[lit 3; adigit 0 1]; [adigit 1 2; udigit]; [lit 0; adigit 1 9]; [adigit 1 9]; [space_cls; adigit 1 9]]
  | TH => [[lit 2; adigit 0 3]; [adigit 0 1; udigit]; [udigit]]
  | TMi => [[adigit 0 5; udigit]; [udigit]]
  | TS => [[lit 6; adigit 0 1]; [adigit 0 5; udigit]; [udigit]]
  | TF => [repeat (adigit 0 9) 6; repeat (adigit 0 9) 5; repeat (adigit 0 9) 4;
           repeat (adigit 0 9) 3; repeat (adigit 0 9) 2; repeat (adigit 0 9) 1]
  | _ => []
  end.

Definition set_field (t : dtok) (v : Z) (len : nat) (d : dt) : dt :=
  match t with
  | TY => {| dY := v; dMo := dMo d; dD := dD d; dH := dH d; dMi := dMi d; dS := dS d; dUs := dUs d |}
  | TMo => {| dY := dY d; dMo := v; dD := dD d; dH := dH d; dMi := dMi d; dS := dS d; dUs := dUs d |}
  | TD => {| dY := dY d; dMo := dMo d; dD := v; dH := dH d; dMi := dMi d; dS := dS d; dUs := dUs d |}
  | TH => {| dY := dY d; dMo := dMo d; dD := dD d; dH := v; dMi := dMi d; dS := dS d; dUs := dUs d |}
  | TMi => {| dY := dY d; dMo := dMo d; dD := dD d; dH := dH d; dMi := v; dS := dS d; dUs := dUs d |}
  | TS => {| dY := dY d; dMo := dMo d; dD := dD d; dH := dH d; dMi := dMi d; dS := v; dUs := dUs d |}
  | TF => {| dY := dY d; dMo := dMo d; dD := dD d; dH := dH d; dMi := dMi d; dS := dS d;
             dUs := v * 10 ^ (6 - Z.of_nat len) |}
  | _ => d
  end.

(* the run of leading whitespace, as the list of (non-empty) prefixes to try, longest first *)
Fixpoint ws_splits (s : str) : list str :=
  match s with
  | c :: r => if is_space c then ws_splits r ++ [r] else []
  | [] => []
  end.

Fixpoint first_some {A B} (f : A -> option B) (l : list A) : option B :=
  match l with
  | [] => None
  | a :: r => match f a with Some b => Some b | None => first_some f r end
  end.

(* depth-first match of the token list; returns the first complete match and the unconsumed rest *)
Fixpoint parse (fmt : list dtok) (s : str) (d : dt) : option (dt * str) :=
  match fmt with
  | [] => Some (d, s)
  | t :: fmt' =>
      match t with
      | TLit c => match s with
                  | c' :: r => if (c =? c')%N then parse fmt' r d else None
                  | [] => None
                  end
      | TWs _ => first_some (fun r => parse fmt' r d) (ws_splits s)
      | _ => first_some (fun a => match match_alt a s 0 with
                                  | Some (v, r) => parse fmt' r (set_field t v (length a) d)
                                  | None => None
                                  end) (alts_of t)
      end
  end.

Definition leap (y : Z) : bool := (y mod 4 =? 0) && (negb (y mod 100 =? 0) || (y mod 400 =? 0)).
Definition days_in_month (y m : Z) : Z :=
  if m =? 2 then (if leap y then 29 else 28)
  else if (m =? 4) || (m =? 6) || (m =? 9) || (m =? 11) then 30 else 31.
Definition valid_dt (d : dt) : bool :=
  (1 <=? dY d) && (dY d <=? 9999) && (1 <=? dMo d) && (dMo d <=? 12) &&
  (1 <=? dD d) && (dD d <=? days_in_month (dY d) (dMo d)) &&
  (0 <=? dH d) && (dH d <=? 23) && (0 <=? dMi d) && (dMi d <=? 59) && (0 <=? dS d) && (dS d <=? 59) &&
  (0 <=? dUs d) && (dUs d <=? 999999).

Definition dt_default : dt := {| dY := 1900; dMo := 1; dD := 1; dH := 0; dMi := 0; dS := 0; dUs := 0 |}.

(* datetime.strptime(s, fmt); None = ValueError *)
Definition strptime (fmt : list dtok) (s : str) : option dt :=
  match parse fmt s dt_default with
  | Some (d, []) => if valid_dt d then Some d else None
  | _ => None
  end.

(* sx codecs *)
Definition dec_tok (s : sx) : dtok :=
  match sxZ (sxnth 0 s) with
  | 0 => TY | 1 => TMo | 2 => TD | 3 => TH | 4 => TMi | 5 => TS | 6 => TF
  | 7 => TLit (sxN (sxnth 1 s))
  | _ => TWs (sxS (sxnth 1 s))
  end.
Definition dec_fmt (s : sx) : list dtok := map dec_tok (sxL s).
Definition dec_dt (s : sx) : dt :=
  {| dY := sxZ (sxnth 0 s); dMo := sxZ (sxnth 1 s); dD := sxZ (sxnth 2 s); dH := sxZ (sxnth 3 s);
     dMi := sxZ (sxnth 4 s); dS := sxZ (sxnth 5 s); dUs := sxZ (sxnth 6 s) |}.
Definition Sdt (d : dt) : sx := L [I (dY d); I (dMo d); I (dD d); I (dH d); I (dMi d); I (dS d); I (dUs d)].
