(* L0: CPython int(str), str(int), float(str), "{:.dF}".format(round(x,d)) and the E-notation
   rendering used by FloatField, on binary64 values represented as SpecFloat.spec_float
   (proof-free computations only). Definitions only. *)
From Coq Require Import ZArith NArith List Bool Arith.
From Coq Require Import Floats.SpecFloat.
From Cfi Require Import Glue.Sx Py.PyStr Py.UnicodeTables.
Import ListNotations.
Local Open Scope N_scope.

(* ---------- digits *)
Fixpoint digit_in (zs : list N) (c : N) : option N :=
  match zs with
  | [] => None
  | z :: r => if (z <=? c) && (c <? z + 10) then Some (c - z) else digit_in r c
  end.
(* Py_UNICODE_TODECIMAL *)
Definition digit_val (c : N) : option N := digit_in digit_zeros c.

(* whitespace accepted around numeric literals: ASCII \t\n\v\f\r and space, plus the
   non-ASCII Unicode spaces (0x1c-0x1f are str.isspace() but are not accepted by int()/float()) *)
Definition num_space (c : N) : bool := is_space c && negb ((28 <=? c) && (c <=? 31)).

(* _PyUnicode_TransformDecimalAndSpaceToASCII, applied after stripping: digits to ASCII,
   non-ASCII non-digits to '?' (they make the literal invalid either way) *)
Definition translit (c : N) : N :=
  match digit_val c with
  | Some v => 48 + v
  | None => if c <? 128 then c else 63
  end.
Definition normalize (s : str) : str := map translit (strip num_space s).

Definition is_digit (c : N) : bool := (48 <=? c) && (c <=? 57).
Definition US : N := 95.

(* a run of digits in which single underscores may separate digits; returns the digit values
   (most significant first) and the rest. [None] when the run does not start with a digit. *)
Fixpoint digits_rest (s : str) : list N * str :=
  match s with
  | c :: r =>
      if is_digit c then let (ds, rest) := digits_rest r in ((c - 48) :: ds, rest)
      else if c =? US then
        match r with
        | c' :: _ => if is_digit c' then digits_rest r else ([], s)
        | [] => ([], s)
        end
      else ([], s)
  | [] => ([], [])
  end.
Definition digits_us (s : str) : option (list N * str) :=
  match s with
  | c :: _ => if is_digit c then Some (digits_rest s) else None
  | [] => None
  end.

Definition Z_of_digits (ds : list N) : Z := fold_left (fun acc d => (acc * 10 + Z.of_N d)%Z) ds 0%Z.

Definition PLUS : N := 43.
Definition MINUS : N := 45.
Definition DOT : N := 46.

(* optional sign: (negative?, rest) *)
Definition take_sign (s : str) : bool * str :=
  match s with
  | c :: r => if c =? MINUS then (true, r) else if c =? PLUS then (false, r) else (false, s)
  | [] => (false, [])
  end.

(* int(s) for a str s; None = ValueError *)
Definition int_of_str (s : str) : option Z :=
  let (neg, r) := take_sign (normalize s) in
  match digits_us r with
  | Some (ds, []) => Some (if neg then (- Z_of_digits ds)%Z else Z_of_digits ds)
  | _ => None
  end.

(* str(z) *)
Fixpoint digits_of_pos_fuel (fuel : nat) (z : Z) (acc : str) : str :=
  match fuel with
  | O => acc
  | S f => if (z <? 10)%Z then (48 + Z.to_N z) :: acc
           else digits_of_pos_fuel f (z / 10)%Z ((48 + Z.to_N (z mod 10)%Z) :: acc)
  end.
(* number of decimal digits never exceeds the number of bits *)
Definition dec_digits (z : Z) : str := digits_of_pos_fuel (S (Z.to_nat (Z.log2 z))) z [].
Definition str_of_Z (z : Z) : str :=
  if (z <? 0)%Z then MINUS :: dec_digits (- z)%Z else dec_digits z.

(* ---------- float(s) *)
Definition lower (c : N) : N := if (65 <=? c) && (c <=? 90) then c + 32 else c.
Definition str_eq_ci (s : str) (lit : str) : bool := str_eqb (map lower s) lit.

(* n / d correctly rounded to binary64 (round to nearest, ties to even): SpecFloat's division on
   arbitrary positive mantissas with exponent 0 *)
Definition rn64 (neg : bool) (n d : positive) : spec_float :=
  SFdiv 53 1024 (S754_finite neg n 0) (S754_finite false d 0).

Local Open Scope Z_scope.

(* the double nearest to n * 10^k, n >= 0 *)
Definition sf_of_dec (neg : bool) (n k : Z) : spec_float :=
  match n with
  | Zpos p =>
      let mag := Z.of_nat (length (dec_digits n)) + k in
      if 400 <? mag then S754_infinity neg
      else if mag <? -400 then S754_zero neg
      else if 0 <=? k then
        binary_normalize 53 1024 (if neg then - (n * 10 ^ k) else n * 10 ^ k) 0 neg
      else match 10 ^ (- k) with
           | Zpos d => rn64 neg p d
           | _ => S754_zero neg
           end
  | _ => S754_zero neg
  end.

Definition nil_b {A} (l : list A) : bool := match l with [] => true | _ => false end.
Definition opt_digits (s : str) : list N * str :=
  match digits_us s with Some r => r | None => ([], s) end.

Definition s_inf : str := [105; 110; 102]%N.
Definition s_infinity : str := [105; 110; 102; 105; 110; 105; 116; 121]%N.
Definition s_nan : str := [110; 97; 110]%N.

(* float(s) for a str s; None = ValueError *)
Definition float_of_str (s : str) : option spec_float :=
  let (neg, r) := take_sign (normalize s) in
  if str_eq_ci r s_inf || str_eq_ci r s_infinity then Some (S754_infinity neg)
  else if str_eq_ci r s_nan then Some S754_nan
  else
    let (ip, r1) := opt_digits r in
    let (fp, r2) :=
      match r1 with
      | c :: r' => if (c =? DOT)%N then opt_digits r' else ([], r1)
      | [] => ([], [])
      end in
    if nil_b ip && nil_b fp then None
    else
      let n := Z_of_digits (ip ++ fp) in
      let k := - Z.of_nat (length fp) in
      match r2 with
      | [] => Some (sf_of_dec neg n k)
      | c :: r3 =>
          if (lower c =? 101)%N then
            let (eneg, r4) := take_sign r3 in
            match digits_us r4 with
            | Some (es, []) =>
                let e := Z_of_digits es in
                Some (sf_of_dec neg n (k + (if eneg then - e else e)))
            | _ => None
            end
          else None
      end.

(* ---------- rendering *)
(* round(num/den) to an integer, ties to even; num >= 0, den > 0 *)
Definition half_even_div (num den : Z) : Z :=
  let q := num / den in
  let r := num mod den in
  if den <? 2 * r then q + 1
  else if 2 * r =? den then (if Z.even q then q else q + 1)
  else q.

(* m * 2^e * 10^d as a fraction *)
Definition scaled (m : positive) (e d : Z) : Z * Z :=
  ((if 0 <=? e then Zpos m * 2 ^ e else Zpos m) * (if 0 <=? d then 10 ^ d else 1),
   (if 0 <=? e then 1 else 2 ^ (- e)) * (if 0 <=? d then 1 else 10 ^ (- d))).

(* the exact half-even rounding of m*2^e to d decimals, as the integer N with value N / 10^d *)
Definition round_dec (m : positive) (e d : Z) : Z :=
  let (num, den) := scaled m e d in half_even_div num den.

Definition zpad (n : nat) (s : str) : str := repeat 48%N (n - length s) ++ s.
Definition sign_text (neg : bool) : str := if neg then [MINUS] else [].

Definition fixed_text (neg : bool) (n : Z) (d : nat) : str :=
  let p := 10 ^ Z.of_nat d in
  sign_text neg ++ dec_digits (n / p) ++
  (match d with O => [] | _ => DOT :: zpad d (dec_digits (n mod p)) end).

(* "{:.{d}F}".format(round(x, d))  (upper = the format letter is upper case) *)
Definition fmtF (upper : bool) (x : spec_float) (d : nat) : str :=
  match x with
  | S754_zero s => fixed_text s 0 d
  | S754_finite s m e => fixed_text s (round_dec m e (Z.of_nat d)) d
  | S754_infinity s => sign_text s ++ (if upper then [73; 78; 70] else [105; 110; 102])%N
  | S754_nan => (if upper then [78; 65; 78] else [110; 97; 110])%N
  end.

(* float.__round__(x, nd) (CPython floatobject.c, double_round): beyond 323 decimals x itself, below -308 a signed zero,
   otherwise the exact half-even rounding of x to nd decimals (dtoa mode 3) read back as the nearest double (strtod);
   None = OverflowError("rounded value too large to represent") *)
Definition py_round (x : spec_float) (nd : Z) : option spec_float :=
  match x with
  | S754_finite s m e =>
      if 323 <? nd then Some x
      else if nd <? -308 then Some (S754_zero s)
      else match sf_of_dec s (round_dec m e nd) (- nd) with
           | S754_infinity _ => None
           | y => Some y
           end
  | _ => Some x
  end.

(* floor(log10(num/den)) for num, den > 0 *)
Definition ilog10 (num den : Z) : Z :=
  if den <=? num then Z.of_nat (length (dec_digits (num / den))) - 1
  else - Z.of_nat (length (dec_digits ((den + num - 1) / num - 1))).

Definition exp_text (upper : bool) (e10 : Z) : str :=
  (if upper then 69 else 101)%N :: (if e10 <? 0 then MINUS else PLUS) :: zpad 2 (dec_digits (Z.abs e10)).

Definition sci_text (upper neg : bool) (n : Z) (d : nat) (e10 : Z) : str :=
  (* n has exactly d+1 digits *)
  let p := 10 ^ Z.of_nat d in
  sign_text neg ++ dec_digits (n / p) ++
  (match d with O => [] | _ => DOT :: zpad d (dec_digits (n mod p)) end) ++ exp_text upper e10.

(* "{:.{d}E}".format(x) : one half-even rounding to d+1 significant digits *)
Definition fmtE (upper : bool) (x : spec_float) (d : nat) : str :=
  match x with
  | S754_zero s => sci_text upper s 0 d 0
  | S754_finite s m e =>
      let (num, den) := scaled m e 0 in
      let e10 := ilog10 num den in
      let n := round_dec m e (Z.of_nat d - e10) in
      if n =? 10 ^ (Z.of_nat d + 1) then sci_text upper s (10 ^ Z.of_nat d) d (e10 + 1)
      else sci_text upper s n d e10
  | S754_infinity s => sign_text s ++ (if upper then [73; 78; 70] else [105; 110; 102])%N
  | S754_nan => (if upper then [78; 65; 78] else [110; 97; 110])%N
  end.

(* what the E branch of FloatField._textual_write hands to format: round(x, d - floor(log10|x|)), x <> 0.
   The exponent is exact: the code computes it with Decimal(value).adjusted() (since fix 9058f8c; before that it used
   floor(log10(|x|)), which rounds up just below a power of ten -- defect 11 in DESIGN.md). *)
Definition sci_nd (m : positive) (e : Z) (d : nat) : Z :=
  let (num, den) := scaled m e 0 in Z.of_nat d - ilog10 num den.
Definition sci_val (x : spec_float) (d : nat) : spec_float :=
  match x with
  | S754_finite s m e => match py_round x (sci_nd m e d) with Some y => y | None => S754_infinity s end
  | _ => x
  end.
(* the write raises OverflowError: round() overflows (an infinite value is written as INF) *)
Definition sci_raises (x : spec_float) (d : nat) : bool :=
  match x with
  | S754_finite s m e => match py_round x (sci_nd m e d) with Some _ => false | None => true end
  | _ => false
  end.
