(* Entry points for the primitive-level correspondence (model of CPython/numpy builtins vs the
   real ones). Definitions only. *)
From Coq Require Import ZArith NArith List Bool Arith.
From Coq Require Import Floats.SpecFloat.
From Cfi Require Import Glue.Sx Py.PyStr Py.PyNum Py.PyBits Py.PyDate.
Import ListNotations.
Local Open Scope Z_scope.

Definition Sfloat (x : spec_float) : sx := I (b64_of_sf x).
Definition sxfloat (s : sx) : spec_float := sf_of_b64 (sxZ s).

(* (op args...) *)
Definition run_prim (arg : sx) : sx :=
  let a1 := sxnth 1 arg in
  let a2 := sxnth 2 arg in
  let a3 := sxnth 3 arg in
  match sxZ (sxnth 0 arg) with
  | 0 => Sopt I (int_of_str (sxS a1))
  | 1 => Sopt Sfloat (float_of_str (sxS a1))
  | 2 => Sstr (fmtF (sxB a3) (sxfloat a1) (sxnat a2))
  | 3 => Sstr (fmtE (sxB a3) (sxfloat a1) (sxnat a2))
  | 4 => Sstr (strip is_space (sxS a1))
  | 5 => L (map Sstr (split (sxS a1) (sxS a2)))
  | 6 => Sstr (replace (sxS a1) (sxS a2) (sxS a3))
  | 7 => Sstr (str_of_Z (sxZ a1))
  | 8 => Sopt (fun l => L (map SN l)) (int_enc (sxnat a1) (sxZ a2))
  | 9 => Sopt I (int_dec (sxnat a1) (sxS a2))
  | 10 => L (map SN (float_enc (sxnat a1) (sxfloat a2)))
  | 11 => Sopt Sfloat (float_dec (sxnat a1) (sxS a2))
  | 12 => Sopt Sstr (utf8_decode (sxS a1))
  | 13 => L [SB (is_space (sxN a1)); Sopt SN (digit_val (sxN a1)); SB (is_bspace (sxN a1)); SB (num_space (sxN a1))]
  | 14 => L (map Sstr (split_lines (sxS a1)))
  | 15 => Sstr (strip is_bspace (sxS a1))
  | 16 => Sopt Sdt (strptime (dec_fmt a1) (sxS a2))
  | 17 => Sstr (strftime (dec_fmt a1) (dec_dt a2))
  | 18 => Sopt Sfloat (py_round (sxfloat a1) (sxZ a2))
  | 19 => if sci_raises (sxfloat a1) (sxnat a2) then L [] else L [Sstr (fmtE (sxB a3) (sci_val (sxfloat a1) (sxnat a2)) (sxnat a2))]
  | _ => L [I (-998)]
  end.
