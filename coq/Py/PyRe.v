(* L0: the part of CPython's [re] that cfi's dispatch relies on: [re.search(pattern, line) is not None].
   Only the boolean answer is used by cfi, so the model is language-theoretic: a regular expression denotes a
   relation between start and end positions of the subject; greedy / lazy choice and group capture do not
   influence it. Covered: literals, character classes with ranges and negation, [.], [\s \S \d \D] (Unicode for
   str patterns, ASCII for bytes patterns), [^] and [$] (no MULTILINE: [$] also matches before a final newline),
   concatenation, alternation, star; [+ ? {m,n}] are expanded by the decoder. Not covered: back-references,
   look-around, flags, [\b \w]. Definitions only. *)
From Coq Require Import ZArith NArith List Bool Arith.
From Cfi Require Import Glue.Sx Py.UnicodeTables Py.PyStr Py.PyNum.
Import ListNotations.

Inductive cpred :=
| CRanges (neg : bool) (rs : list (N * N))   (* [a-bc-d] / [^a-b]; a literal character c is [(c,c)] *)
| CAny                                         (* .  : any character but the newline *)
| CSpace (ascii neg : bool)                    (* \s \S *)
| CDigit (ascii neg : bool).                   (* \d \D *)

Definition in_ranges (rs : list (N * N)) (c : N) : bool :=
  existsb (fun p : N * N => N.leb (fst p) c && N.leb c (snd p)) rs.

Definition cmatch (p : cpred) (c : N) : bool :=
  match p with
  | CRanges neg rs => xorb neg (in_ranges rs c)
  | CAny => negb (N.eqb c 10)
  | CSpace ascii neg => xorb neg (if ascii then is_bspace c else is_space c)
  | CDigit ascii neg => xorb neg (if ascii then is_digit c else match digit_val c with Some _ => true | None => false end)
  end.

Inductive re :=
| REps
| RChr (c : cpred)
| RBol
| REol
| RSeq (a b : re)
| RAlt (a b : re)
| RStar (a : re).

Definition re_never : re := RChr (CRanges false []).
Definition re_chr (c : N) : re := RChr (CRanges false [(c, c)]).
Fixpoint re_lit (p : str) : re :=
  match p with [] => REps | c :: r => RSeq (re_chr c) (re_lit r) end.
Definition re_opt (a : re) : re := RAlt a REps.
Definition re_plus (a : re) : re := RSeq a (RStar a).
Fixpoint re_pow (a : re) (k : nat) : re := match k with O => REps | S k' => RSeq a (re_pow a k') end.
Fixpoint re_upto (a : re) (k : nat) : re := match k with O => REps | S k' => re_opt (RSeq a (re_upto a k')) end.
(* a{m,m+d} *)
Definition re_rep (a : re) (m d : nat) : re := RSeq (re_pow a m) (re_upto a d).

Section Match.
  Variable s : str.

  (* [$]: at the end, or just before a newline that ends the subject *)
  Definition at_eol (i : nat) : bool :=
    Nat.eqb i (length s) ||
    (Nat.eqb (S i) (length s) && match nth_error s i with Some x => N.eqb x 10 | None => false end).

  Definition chr_step (c : cpred) (X : list nat) : list nat :=
    flat_map (fun i => match nth_error s i with
                       | Some x => if cmatch c x then [S i] else []
                       | None => []
                       end) X.

  (* union that keeps the accumulator duplicate-free *)
  Definition add_new (new acc : list nat) : list nat :=
    fold_right (fun j acc => if existsb (Nat.eqb j) acc then acc else j :: acc) acc new.

  (* reflexive-transitive closure of [step] over the positions of l, visited in increasing order: a match never
     moves backwards, so when position i is visited its membership is final *)
  Fixpoint sweep (step : list nat -> list nat) (l : list nat) (acc : list nat) : list nat :=
    match l with
    | [] => acc
    | i :: l' => sweep step l' (if existsb (Nat.eqb i) acc then add_new (step [i]) acc else acc)
    end.

  (* the set of end positions of matches of r that start at a position of X *)
  Fixpoint ends (r : re) (X : list nat) : list nat :=
    match r with
    | REps => X
    | RChr c => chr_step c X
    | RBol => filter (fun i => Nat.eqb i 0) X
    | REol => filter at_eol X
    | RSeq a b => ends b (ends a X)
    | RAlt a b => nodup Nat.eq_dec (ends a X ++ ends b X)
    | RStar a => sweep (ends a) (seq 0 (S (length s))) X
    end.
End Match.

Definition nonempty {A} (l : list A) : bool := match l with [] => false | _ => true end.

(* re.search(r, s) is not None *)
Definition re_search (r : re) (s : str) : bool := nonempty (ends s r (seq 0 (S (length s)))).
(* re.match(r, s) is not None *)
Definition re_match (r : re) (s : str) : bool := nonempty (ends s r [0]).
(* re.fullmatch(r, s) is not None *)
Definition re_fullmatch (r : re) (s : str) : bool := existsb (Nat.eqb (length s)) (ends s r [0]).

(* ---------- decoding from the exchange format:
   (0) eps | (1 neg (lo hi)...) class | (2) any | (3 ascii neg) \s | (4 ascii neg) \d | (5) ^ | (6) $ |
   (7 a b) seq | (8 a b) alt | (9 a) star | (10 a) plus | (11 a) opt | (12 a m d) a{m,m+d} | (13 str) literal *)
Fixpoint dec_re (x : sx) : re :=
  match x with
  | I _ => REps
  | L l =>
      match l with
      | [] => REps
      | tag :: args =>
          match sxnat tag, args with
          | 1, neg :: rs => RChr (CRanges (sxB neg) (map (fun p => (sxN (sxnth 0 p), sxN (sxnth 1 p))) rs))
          | 2, _ => RChr CAny
          | 3, [a; n] => RChr (CSpace (sxB a) (sxB n))
          | 4, [a; n] => RChr (CDigit (sxB a) (sxB n))
          | 5, _ => RBol
          | 6, _ => REol
          | 7, [a; b] => RSeq (dec_re a) (dec_re b)
          | 8, [a; b] => RAlt (dec_re a) (dec_re b)
          | 9, [a] => RStar (dec_re a)
          | 10, [a] => re_plus (dec_re a)
          | 11, [a] => re_opt (dec_re a)
          | 12, [a; m; d] => re_rep (dec_re a) (sxnat m) (sxnat d)
          | 13, [p] => re_lit (sxS p)
          | _, _ => REps
          end
      end
  end.

(* entry RE: ((re subject)...) -> per case (search match fullmatch) *)
Definition run_RE (arg : sx) : sx :=
  L (map (fun c => let r := dec_re (sxnth 0 c) in
                   let s := sxS (sxnth 1 c) in
                   L [SB (re_search r s); SB (re_match r s); SB (re_fullmatch r s)]) (sxL arg)).
