(* L0: CPython str / bytes primitives that cfi relies on. Strings are lists of code points,
   bytes are lists of values < 256. Definitions only. *)
From Coq Require Import ZArith NArith List Bool Arith.
From Cfi Require Import Glue.Sx.
Import ListNotations.
Local Open Scope N_scope.

(* str.isspace() for a single code point (Unicode White_Space + the separators CPython treats
   as space: 0x1c-0x1f); checked against CPython for every code point by the harness *)
Definition is_space (c : N) : bool :=
  ((9 <=? c) && (c <=? 13)) || ((28 <=? c) && (c <=? 32)) || (c =? 133) || (c =? 160) ||
  (c =? 5760) || ((8192 <=? c) && (c <=? 8202)) || (c =? 8232) || (c =? 8233) ||
  (c =? 8239) || (c =? 8287) || (c =? 12288).

(* bytes.strip() whitespace: b' \t\n\r\x0b\x0c' *)
Definition is_bspace (c : N) : bool := ((9 <=? c) && (c <=? 13)) || (c =? 32).

Definition SP : N := 32.
Definition NL : N := 10.

Section Strip.
  Variable sp : N -> bool.
  Fixpoint lstrip (s : str) : str :=
    match s with
    | [] => []
    | c :: r => if sp c then lstrip r else s
    end.
  Definition rstrip (s : str) : str := rev (lstrip (rev s)).
  Definition strip (s : str) : str := rstrip (lstrip s).
End Strip.

Definition pad (n : nat) : str := repeat SP n.
Definition ljust (n : nat) (s : str) : str := s ++ pad (n - length s).
Definition rjust (n : nat) (s : str) : str := pad (n - length s) ++ s.

(* s[a:b] for 0 <= a, 0 <= b *)
Definition slice (a b : nat) (s : str) : str := firstn (b - a) (skipn a s).

Fixpoint starts_with (p s : str) : bool :=
  match p, s with
  | [], _ => true
  | x :: p', y :: s' => (x =? y) && starts_with p' s'
  | _ :: _, [] => false
  end.

(* str.split(sep) for a non-empty separator: leftmost non-overlapping occurrences.
   [cur] accumulates (reversed) the token being read. *)
Fixpoint split_aux (sep : str) (cur : str) (s : str) (skip : nat) : list str :=
  match s with
  | [] => [rev cur]
  | c :: r =>
      match skip with
      | S k => split_aux sep cur r k
      | O =>
          if starts_with sep s
          then rev cur :: split_aux sep [] r (length sep - 1)
          else split_aux sep (c :: cur) r O
      end
  end.
Definition split (sep : str) (s : str) : list str := split_aux sep [] s O.

Fixpoint join (sep : str) (l : list str) : str :=
  match l with
  | [] => []
  | [a] => a
  | a :: r => a ++ sep ++ join sep r
  end.

(* str.replace(old, new) for non-empty old *)
Definition replace (old new : str) (s : str) : str := join new (split old s).

(* substring search: re.search of a metacharacter-free pattern *)
Fixpoint contains (p s : str) : bool :=
  starts_with p s ||
  match s with
  | [] => false
  | _ :: r => contains p r
  end.

(* str.splitlines(keepends=True) restricted to '\n' (what readline() on a StringIO does) *)
Fixpoint lines_aux (cur : str) (s : str) : list str :=
  match s with
  | [] => match cur with [] => [] | _ => [rev cur] end
  | c :: r => if c =? NL then rev (c :: cur) :: lines_aux [] r else lines_aux (c :: cur) r
  end.
Definition split_lines (s : str) : list str := lines_aux [] s.

(* readline on the remaining suffix: (line, rest) *)
Fixpoint readline_aux (cur : str) (s : str) : str * str :=
  match s with
  | [] => (rev cur, [])
  | c :: r => if c =? NL then (rev (c :: cur), r) else readline_aux (c :: cur) r
  end.
Definition readline (s : str) : str * str := readline_aux [] s.

(* ---- UTF-8 decoding of a byte string (strict); None = UnicodeDecodeError *)
Definition cont_byte (b : N) : bool := (128 <=? b) && (b <=? 191).
Fixpoint utf8_decode_fuel (fuel : nat) (bs : list N) : option str :=
  match fuel with
  | O => None
  | S f =>
      match bs with
      | [] => Some []
      | b0 :: r =>
          if b0 <? 128 then option_map (cons b0) (utf8_decode_fuel f r)
          else if (194 <=? b0) && (b0 <=? 223) then
            match r with
            | b1 :: r' => if cont_byte b1
                          then option_map (cons ((b0 - 192) * 64 + (b1 - 128))) (utf8_decode_fuel f r')
                          else None
            | _ => None
            end
          else if (224 <=? b0) && (b0 <=? 239) then
            match r with
            | b1 :: b2 :: r' =>
                let lo := if b0 =? 224 then 160 else 128 in
                let hi := if b0 =? 237 then 159 else 191 in
                if (lo <=? b1) && (b1 <=? hi) && cont_byte b2
                then option_map (cons ((b0 - 224) * 4096 + (b1 - 128) * 64 + (b2 - 128))) (utf8_decode_fuel f r')
                else None
            | _ => None
            end
          else if (240 <=? b0) && (b0 <=? 244) then
            match r with
            | b1 :: b2 :: b3 :: r' =>
                let lo := if b0 =? 240 then 144 else 128 in
                let hi := if b0 =? 244 then 143 else 191 in
                if (lo <=? b1) && (b1 <=? hi) && cont_byte b2 && cont_byte b3
                then option_map (cons ((b0 - 240) * 262144 + (b1 - 128) * 4096 + (b2 - 128) * 64 + (b3 - 128)))
                                (utf8_decode_fuel f r')
                else None
            | _ => None
            end
          else None
      end
  end.
Definition utf8_decode (bs : list N) : option str := utf8_decode_fuel (S (length bs)) bs.

(* str.encode("utf-8") for code points that are not surrogates; None = UnicodeEncodeError *)
Definition utf8_encode_char (c : N) : option (list N) :=
  if c <? 128 then Some [c]
  else if c <? 2048 then Some [192 + c / 64; 128 + c mod 64]
  else if (55296 <=? c) && (c <=? 57343) then None
  else if c <? 65536 then Some [224 + c / 4096; 128 + (c / 64) mod 64; 128 + c mod 64]
  else if c <? 1114112 then Some [240 + c / 262144; 128 + (c / 4096) mod 64; 128 + (c / 64) mod 64; 128 + c mod 64]
  else None.
Fixpoint utf8_encode (s : str) : option (list N) :=
  match s with
  | [] => Some []
  | c :: r => match utf8_encode_char c, utf8_encode r with
              | Some a, Some b => Some (a ++ b)
              | _, _ => None
              end
  end.
