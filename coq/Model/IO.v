(* L6: the reading / writing adapters as context managers, and the drivers that run the element loop
   inside `with repository:` (adapters/reading/repository.py, adapters/writing/repository.py,
   reading/*.py, writing/*.py).  What the elements do is abstracted to a behaviour per element:
   emit/consume some text, or raise exception number e.  Definitions only. *)
From Coq Require Import ZArith NArith List Bool Arith.
From Cfi Require Import Glue.Sx Py.PyStr.
Import ListNotations.

Inductive wbeh := WEmit (t : str) | WFail (e : nat).
Inductive rbeh := RConsume (n : nat) | RFail (e : nat).
Inductive endpoint := Path | Buffer.    (* a str path / a caller-owned buffer (write) or in-memory content (read) *)

(* the two facts about the code that the property rests on, as parameters (repaired/actual code: both true):
   [with_stmt]  the element loop runs inside `with repository:` (so __exit__ runs on every outcome);
   [exit_closes] __exit__ closes the handle the adapter opened. *)
Record impl := { with_stmt : bool; exit_closes : bool }.
Definition actual : impl := {| with_stmt := true; exit_closes := true |}.

(* outcome of a run *)
Record result := {
  raised : option nat;        (* the exception that reached the caller *)
  output : str;               (* what the destination holds / what was consumed *)
  fw_opened : nat;            (* handles the framework opened during the call *)
  fw_closed : nat;            (* of those, how many are closed afterwards *)
  buf_closed : bool;          (* caller-supplied buffer closed? *)
  buf_pos : nat               (* position of the caller-supplied buffer *)
}.

(* element loop of the writers: stop at the first exception, catch nothing *)
Fixpoint write_loop (bs : list wbeh) (acc : str) : option nat * str :=
  match bs with
  | [] => (None, acc)
  | WEmit t :: r => write_loop r (acc ++ t)
  | WFail e :: _ => (Some e, acc)
  end.

Definition run_write (i : impl) (dst : endpoint) (bs : list wbeh) : result :=
  let (exc, out) := write_loop bs [] in
  let exit_runs := match exc with None => true | Some _ => with_stmt i end in
  match dst with
  | Path =>      (* __enter__: open(path, "w"/"wb"); __exit__: close it (wrap_io is true for str destinations) *)
      {| raised := exc; output := out; fw_opened := 1;
         fw_closed := if exit_runs && exit_closes i then 1 else 0; buf_closed := false; buf_pos := 0 |}
  | Buffer =>    (* the caller's buffer is used as is and never closed *)
      {| raised := exc; output := out; fw_opened := 0; fw_closed := 0; buf_closed := false; buf_pos := length out |}
  end.

(* element loop of the readers: each element consumes from the stream or raises *)
Fixpoint read_loop_io (bs : list rbeh) (s : str) (consumed : str) : option nat * str :=
  match bs with
  | [] => (None, consumed)
  | RConsume n :: r => read_loop_io r (skipn n s) (consumed ++ firstn n s)
  | RFail e :: _ => (Some e, consumed)
  end.

Definition run_read (i : impl) (src : endpoint) (content : str) (bs : list rbeh) : result :=
  let (exc, cons) := read_loop_io bs content [] in
  let exit_runs := match exc with None => true | Some _ => with_stmt i end in
  (* both kinds of source give a framework-owned handle: open(path) or StringIO/BytesIO(content);
     __exit__ closes it in both cases *)
  {| raised := exc; output := cons; fw_opened := 1;
     fw_closed := if exit_runs && exit_closes i then 1 else 0; buf_closed := false; buf_pos := 0 |}.

(* ---------- C16: path or in-memory content *)
Section PathOrContent.
  Variable fs : str -> option (list N).          (* the file system: path -> bytes *)
  Variable dec : list N -> option str.           (* the file class's declared codec *)
  Variable enc : str -> option (list N).
  Variable tr : str -> str.                      (* newline translation of text-mode open() (universal newlines) *)
  Variable A : Type.
  Variable parse : str -> A.                     (* what the reading driver computes from the decoded text *)

  (* reading adapter, text storage: an existing file is opened in text mode with the declared encoding (decoded, newlines
     translated); anything else is the content itself, wrapped in a StringIO (no translation) *)
  Definition read_any (arg : str) : option A :=
    match fs arg with
    | Some b => option_map (fun s => parse (tr s)) (dec b)         (* None = UnicodeDecodeError *)
    | None => Some (parse arg)
    end.
  (* binary storage: bytes as they are *)
  Variable parse_b : list N -> A.
  Definition read_any_bin (arg : list N) (as_path : option (list N)) : A :=
    match as_path with Some b => parse_b b | None => parse_b arg end.

  (* writing adapter: a str destination is a path opened in text mode with the declared encoding; otherwise the caller's
     buffer. The file receives the chunks the elements write; the incremental encoder emits its preamble (the utf-16 BOM)
     with the first write call, so a file that received no write call at all is empty. *)
  Definition write_path (chunks : list str) : option (list N) :=
    match chunks with [] => Some [] | _ => enc (concat chunks) end.
  Definition write_mem (chunks : list str) : str := concat chunks.
End PathOrContent.

(* entry point: (kind impl-flags endpoint behaviours content) *)
Definition dec_wbeh (s : sx) : wbeh := if sxB (sxnth 0 s) then WFail (sxnat (sxnth 1 s)) else WEmit (sxS (sxnth 1 s)).
Definition dec_rbeh (s : sx) : rbeh := if sxB (sxnth 0 s) then RFail (sxnat (sxnth 1 s)) else RConsume (sxnat (sxnth 1 s)).
Definition Sresult (r : result) : sx :=
  L [Sopt Snat (raised r); Sstr (output r); Snat (fw_opened r); Snat (fw_closed r); SB (buf_closed r); Snat (buf_pos r)].
Definition run_C17 (arg : sx) : sx :=
  let i := {| with_stmt := sxB (sxnth 1 arg); exit_closes := sxB (sxnth 2 arg) |} in
  let ep := if sxB (sxnth 3 arg) then Buffer else Path in
  if sxB (sxnth 0 arg)
  then Sresult (run_read i ep (sxS (sxnth 5 arg)) (map dec_rbeh (sxL (sxnth 4 arg))))
  else Sresult (run_write i ep (map dec_wbeh (sxL (sxnth 4 arg)))).
