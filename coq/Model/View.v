(* C20: the data-frame view of a register type (files/registerfile.py: _as_df; components/register.py:
   custom_properties). A frame is abstracted to named columns of cells. Definitions only. *)
From Coq Require Import String ZArith NArith List Bool Arith.
From Cfi Require Import Glue.Sx Model.Version.
Import ListNotations.

Section View.
  Variable cell : Type.

  (* a register: its type and its property values by name *)
  Record reg := { r_type : nat; r_props : list (str * cell) }.

  Fixpoint mem (s : str) (l : list str) : bool :=
    match l with [] => false | a :: r => str_eqb s a || mem s r end.

  (* Register.custom_properties: inspect.getmembers(cls, isproperty) is sorted by name; the framework's own
     property names are removed *)
  Definition custom_properties (all_props framework : list str) : list str :=
    filter (fun n => negb (mem n framework)) (sort all_props).

  Definition lookup_prop (r : reg) (n : str) : option cell :=
    match find (fun kv => str_eqb n (fst kv)) (r_props r) with Some kv => Some (snd kv) | None => None end.

  (* pd.DataFrame(data={c: [getattr(r, c) for r in registers] for c in cols}); no registers -> pd.DataFrame() *)
  Definition as_df (isinst : nat -> nat -> bool) (t : nat) (cols_of : nat -> list str) (regs : list reg)
    : list str * list (list (option cell)) :=
    match filter (fun r => isinst (r_type r) t) regs with
    | [] => ([], [])
    | r0 :: rest =>
        let cols := cols_of (r_type r0) in
        match cols with
        | [] => ([], [])       (* a frame without columns has no rows *)
        | _ => (cols, map (fun r => map (lookup_prop r) cols) (r0 :: rest))
        end
    end.
End View.
Arguments Build_reg {cell}.
Arguments r_type {cell}.
Arguments r_props {cell}.
Arguments custom_properties all_props framework : assert.
Arguments as_df {cell}.
Arguments lookup_prop {cell}.

Definition framework_props : list str :=
  map s2l ["data"; "empty"; "is_first"; "is_last"; "next"; "previous"; "custom_properties"]%string.

(* entry: (types sub views) ; types = list of property-name lists (all class properties, framework's included);
   sub[c][t] = issubclass(type c, type t); views = list of (t regs), regs = list of (type (name value)...);
   result = one (cols rows) per view *)
Definition run_C20 (arg : sx) : sx :=
  let types := map (fun p => map sxS (sxL p)) (sxL (sxnth 0 arg)) in
  let sub := sxL (sxnth 1 arg) in
  let isinst := fun c t => sxB (sxnth t (nth c sub (L []))) in
  let cols_of := fun ty => custom_properties (nth ty types []) framework_props in
  L (map (fun v =>
            let regs := map (fun r => {| r_type := sxnat (sxnth 0 r);
                                         r_props := map (fun kv => (sxS (sxnth 0 kv), sxnth 1 kv)) (sxL (sxnth 1 r)) |})
                            (sxL (sxnth 1 v)) in
            let (cols, rows) := as_df isinst (sxnat (sxnth 0 v)) cols_of regs in
            L [L (map Sstr cols); L (map (fun row => L (map (fun c => match c with Some x => x | None => L [I (-1)%Z] end) row)) rows)])
         (sxL (sxnth 2 arg))).
