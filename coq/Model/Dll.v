(* L4: the linked containers RegisterData / BlockData / SectionData (data/*.py), which are the
   same code up to renaming.  Elements are identified by [nat] ids (Python object identity);
   value equality (==) is a separate relation and plays no role in the repaired code.
   Definitions only. *)
From Coq Require Import ZArith NArith List Bool Arith.
From Cfi Require Import Glue.Sx.
Import ListNotations.

Record node := { prev : option nat; next : option nat }.
Definition heap := nat -> node.
Record cont := { root : option nat; head : option nat }.

Definition set_prev (h : heap) (x : nat) (p : option nat) : heap :=
  fun y => if Nat.eqb y x then {| prev := p; next := next (h x) |} else h y.
Definition set_next (h : heap) (x : nat) (n : option nat) : heap :=
  fun y => if Nat.eqb y x then {| prev := prev (h x); next := n |} else h y.

Definition oeqb (a b : option nat) : bool :=
  match a, b with Some x, Some y => Nat.eqb x y | None, None => true | _, _ => false end.

Section Variants.
  (* how the code decides "is this element the root/head?":
       [same a b] is identity in the repaired code, value equality in the code as found *)
  Variable same : nat -> nat -> bool.
  (* whether remove() moves root/head when an end is removed (repaired code: true) *)
  Variable remove_moves_ends : bool.

  Definition is_end (e : option nat) (a : nat) : bool :=
    match e with Some r => same a r | None => false end.

  (* add_before(before, new) *)
  Definition add_before (s : heap * cont) (b x : nat) : heap * cont :=
    let (h, c) := s in
    let (h1, c1) :=
      if is_end (root c) b then (h, {| root := Some x; head := head c |})
      else match prev (h b) with
           | Some p => (set_next h p (Some x), c)
           | None => (h, c)
           end in
    let h2 := set_prev h1 x (prev (h1 b)) in
    let h3 := set_prev h2 b (Some x) in
    let h4 := set_next h3 x (Some b) in
    (h4, c1).

  (* add_after(after, new); [None] result = AttributeError (after.next is None but after is not head) *)
  Definition add_after (s : heap * cont) (a x : nat) : option (heap * cont) :=
    let (h, c) := s in
    let r :=
      if is_end (head c) a then Some (h, {| root := root c; head := Some x |})
      else match next (h a) with
           | Some n => Some (set_prev h n (Some x), c)
           | None => None
           end in
    match r with
    | None => None
    | Some (h1, c1) =>
        let h2 := set_next h1 x (next (h1 a)) in
        let h3 := set_next h2 a (Some x) in
        let h4 := set_prev h3 x (Some a) in
        Some (h4, c1)
    end.

  Definition prepend (s : heap * cont) (x : nat) : option (heap * cont) :=
    match root (snd s) with Some r => Some (add_before s r x) | None => None end.
  Definition append (s : heap * cont) (x : nat) : option (heap * cont) :=
    match head (snd s) with Some r => add_after s r x | None => None end.

  (* remove(r) *)
  Definition remove (s : heap * cont) (r : nat) : heap * cont :=
    let (h, c) := s in
    let h1 := match prev (h r) with Some p => set_next h p (next (h r)) | None => h end in
    let h2 := match next (h1 r) with Some n => set_prev h1 n (prev (h1 r)) | None => h1 end in
    let c' :=
      if remove_moves_ends then
        {| root := if oeqb (root c) (Some r) then next (h2 r) else root c;
           head := if oeqb (head c) (Some r) then prev (h2 r) else head c |}
      else c in
    (h2, c').
End Variants.

(* __iter__: walk next from root; the fuel is a cap, the theorems show length+1 suffices *)
Fixpoint walk (f : node -> option nat) (h : heap) (cur : option nat) (fuel : nat) : list nat :=
  match fuel, cur with
  | S k, Some a => a :: walk f h (f (h a)) k
  | _, _ => []
  end.
Definition iter (s : heap * cont) (fuel : nat) : list nat := walk next (fst s) (root (snd s)) fuel.
Definition iter_back (s : heap * cont) (fuel : nat) : list nat := walk prev (fst s) (head (snd s)) fuel.

(* ---------- the abstract list the container is supposed to be *)
Fixpoint insert_before (b x : nat) (l : list nat) : list nat :=
  match l with
  | [] => []
  | a :: r => if Nat.eqb a b then x :: a :: r else a :: insert_before b x r
  end.
Fixpoint insert_after (b x : nat) (l : list nat) : list nat :=
  match l with
  | [] => []
  | a :: r => if Nat.eqb a b then a :: x :: r else a :: insert_after b x r
  end.
Fixpoint remove_elt (b : nat) (l : list nat) : list nat :=
  match l with
  | [] => []
  | a :: r => if Nat.eqb a b then r else a :: remove_elt b r
  end.

Inductive op :=
| OPrepend (x : nat) | OAppend (x : nat)
| OAddBefore (b x : nat) | OAddAfter (a x : nat) | ORemove (a : nat).

Definition apply_list (o : op) (l : list nat) : list nat :=
  match o with
  | OPrepend x => x :: l
  | OAppend x => l ++ [x]
  | OAddBefore b x => insert_before b x l
  | OAddAfter a x => insert_after a x l
  | ORemove a => remove_elt a l
  end.

(* precondition of an operation on the list: targets are members, inserted elements are not,
   and the sole remaining element is not removed *)
Definition pre (o : op) (l : list nat) : Prop :=
  match o with
  | OPrepend x | OAppend x => ~ In x l
  | OAddBefore b x | OAddAfter b x => In b l /\ ~ In x l
  | ORemove a => In a l /\ l <> [a]
  end.

Definition step (same : nat -> nat -> bool) (rme : bool) (s : heap * cont) (o : op) : option (heap * cont) :=
  match o with
  | OPrepend x => prepend same s x
  | OAppend x => append same s x
  | OAddBefore b x => Some (add_before same s b x)
  | OAddAfter a x => add_after same s a x
  | ORemove a => Some (remove rme s a)
  end.

(* the repaired code *)
Definition step_ok := step Nat.eqb true.

Definition init_heap : heap := fun _ => {| prev := None; next := None |}.
(* Data(root): a container holding one element; the element object is fresh (no links) or a
   previously removed one whose stale links are irrelevant only if they are None -- the
   constructor does not reset them, so the model takes the element's current node *)
Definition singleton (h : heap) (x : nat) : heap * cont := (h, {| root := Some x; head := Some x |}).

(* ---------- queries (C08) *)
Section Queries.
  Variable isinst : nat -> nat -> bool.        (* isinstance(element, type) *)
  Variable attr : nat -> nat -> option Z.      (* getattr(element, key); None models Python None *)

  Definition meets (kw : list (nat * option Z)) (r : nat) : bool :=
    forallb (fun kv => match snd kv with
                       | None => true
                       | Some v => match attr r (fst kv) with Some a => Z.eqb a v | None => false end
                       end) kw.

  Definition of_type (l : list nat) (t : nat) : list nat := filter (fun r => isinst r t) l.
  Definition matching (l : list nat) (t : nat) (kw : list (nat * option Z)) : list nat :=
    filter (meets kw) (of_type l t).

  Inductive shape := SNone | SOne (r : nat) | SMany (rs : list nat).
  Definition get_of_type (l : list nat) t kw : shape :=
    match matching l t kw with
    | [] => SNone
    | [r] => SOne r
    | rs => SMany rs
    end.

  (* remove_*_of_type on the concrete container; [same] decides "is the root" *)
  Definition remove_of_type (same : nat -> nat -> bool) (rme : bool) (s : heap * cont) (fuel : nat) t kw
    : heap * cont :=
    match get_of_type (iter s fuel) t kw with
    | SNone => s
    | SOne r => remove rme s r
    | SMany rs =>
        fold_left (fun s r => if is_end same (root (snd s)) r then s else remove rme s r) rs s
    end.

  (* specification on the abstract list *)
  Definition remove_of_type_spec (l : list nat) t kw : list nat :=
    match matching l t kw with
    | [] => l
    | [r] => remove_elt r l
    | _ => match l with
           | [] => []
           | r0 :: _ => filter (fun r => negb (isinst r t && meets kw r) || Nat.eqb r r0) l
           end
    end.
End Queries.

(* ---------- equality (C15) *)
Section Equality.
  (* elements: class id and data code; [sub c d] = issubclass(c, d), reflexive *)
  Variable sub : nat -> nat -> bool.
  Definition elem := (nat * Z)%type.
  (* Register.__eq__ / the harness block and section classes: isinstance(o, self.__class__) and data == *)
  Definition meth_eq (a b : elem) : bool := sub (fst b) (fst a) && Z.eqb (snd b) (snd a).
  (* a == b: the reflected method of the right operand is tried first when its type is a proper subclass *)
  Definition py_eq (a b : elem) : bool :=
    if sub (fst b) (fst a) && negb (Nat.eqb (fst a) (fst b)) then meth_eq b a else meth_eq a b.
  Definition py_ne (a b : elem) : bool := negb (py_eq a b).
  (* *Data.__eq__ after the isinstance test *)
  Fixpoint all_eq (xs ys : list elem) : bool :=
    match xs, ys with
    | x :: xs', y :: ys' => if py_ne x y then false else all_eq xs' ys'
    | _, _ => true
    end.
  Definition cont_eq (xs ys : list elem) : bool :=
    if negb (Nat.eqb (length xs) (length ys)) then false else all_eq xs ys.
End Equality.

(* ---------- entry points *)
Definition dec_op (s : sx) : op :=
  let a := sxnat (sxnth 1 s) in
  let b := sxnat (sxnth 2 s) in
  match sxZ (sxnth 0 s) with
  | 0%Z => OPrepend a
  | 1%Z => OAppend a
  | 2%Z => OAddBefore a b
  | 3%Z => OAddAfter a b
  | _ => ORemove a
  end.

Definition Sonat (o : option nat) : sx := match o with Some n => Snat n | None => I (-1)%Z end.

Definition observe (s : heap * cont) (fuel : nat) : sx :=
  let l := iter s fuel in
  L [ L (map Snat l); L (map Snat (iter_back s fuel)); Sonat (root (snd s)); Sonat (head (snd s));
      L (map (fun a => L [Sonat (prev (fst s a)); Sonat (next (fst s a))]) l) ].

(* arg = (variant valueclasses fuel ops); variant: 0 = repaired, 1 = end detection by value,
   2 = remove leaves root/head, 3 = both (the code as found).
   result = list of observations after each op; an op that raises yields (-2) and stops *)
Definition same_of (variant : Z) (vc : list sx) : nat -> nat -> bool :=
  if (Z.eqb variant 1 || Z.eqb variant 3)%bool
  then fun a b => Z.eqb (sxZ (nth a vc (I (-1)%Z))) (sxZ (nth b vc (I (-2)%Z)))
  else Nat.eqb.
Definition rme_of (variant : Z) : bool := (Z.eqb variant 0 || Z.eqb variant 1)%bool.

Fixpoint run_ops (same : nat -> nat -> bool) (rme : bool) (fuel : nat) (s : heap * cont) (ops : list sx) : list sx :=
  match ops with
  | [] => []
  | o :: r =>
      match step same rme s (dec_op o) with
      | None => [I (-2)%Z]
      | Some s' => observe s' fuel :: run_ops same rme fuel s' r
      end
  end.

Definition run_C07 (arg : sx) : sx :=
  let variant := sxZ (sxnth 0 arg) in
  let vc := sxL (sxnth 1 arg) in
  let fuel := sxnat (sxnth 2 arg) in
  L (run_ops (same_of variant vc) (rme_of variant) fuel (singleton init_heap 0) (sxL (sxnth 3 arg))).
