(* Entry points for C08 and C15 (the C07 entry is in Dll.v). Definitions only. *)
From Coq Require Import ZArith NArith List Bool Arith.
From Cfi Require Import Glue.Sx Model.Dll.
Import ListNotations.

(* isinst / attr tables: isinst = list (per element) of list (per type) of 0/1;
   attr = list (per element) of list (per key) of () | (v) *)
Definition tab_isinst (tb : list sx) (r t : nat) : bool := sxB (sxnth t (nth r tb (L []))).
Definition tab_attr (tb : list sx) (r k : nat) : option Z := sxopt sxZ (sxnth k (nth r tb (L []))).
Definition dec_kw (s : sx) : list (nat * option Z) :=
  map (fun kv => (sxnat (sxnth 0 kv), sxopt sxZ (sxnth 1 kv))) (sxL s).

Definition Sshape (sh : shape) : sx :=
  match sh with
  | SNone => L [I 0%Z]
  | SOne r => L [I 1%Z; Snat r]
  | SMany rs => L [I 2%Z; L (map Snat rs)]
  end.

(* ops: (0..4 ...) structural as in C07; (5 t) of_type; (6 t kw) get; (7 t kw) bulk removal *)
Fixpoint run_q (same : nat -> nat -> bool) (rme : bool) (isi : nat -> nat -> bool) (att : nat -> nat -> option Z)
         (fuel : nat) (s : heap * cont) (ops : list sx) : list sx :=
  match ops with
  | [] => []
  | o :: r =>
      let t := sxnat (sxnth 1 o) in
      let kw := dec_kw (sxnth 2 o) in
      match sxZ (sxnth 0 o) with
      | 5%Z => L (map Snat (of_type isi (iter s fuel) t)) :: run_q same rme isi att fuel s r
      | 6%Z => Sshape (get_of_type isi att (iter s fuel) t kw) :: run_q same rme isi att fuel s r
      | 7%Z => let s' := remove_of_type isi att same rme s fuel t kw in
               observe s' fuel :: run_q same rme isi att fuel s' r
      | _ => match step same rme s (dec_op o) with
             | None => [I (-2)%Z]
             | Some s' => observe s' fuel :: run_q same rme isi att fuel s' r
             end
      end
  end.

(* arg = (variant valueclasses fuel isinst attr ops) *)
Definition run_C08 (arg : sx) : sx :=
  let variant := sxZ (sxnth 0 arg) in
  let vc := sxL (sxnth 1 arg) in
  let fuel := sxnat (sxnth 2 arg) in
  L (run_q (same_of variant vc) (rme_of variant)
       (tab_isinst (sxL (sxnth 3 arg))) (tab_attr (sxL (sxnth 4 arg)))
       fuel (singleton init_heap 0) (sxL (sxnth 5 arg))).

(* C15: arg = (subtable xs ys), subtable[c][d] = issubclass(c, d); xs, ys = lists of (cls data) *)
Definition dec_elems (s : sx) : list elem := map (fun e => (sxnat (sxnth 0 e), sxZ (sxnth 1 e))) (sxL s).
Definition run_C15 (arg : sx) : sx :=
  let tb := sxL (sxnth 0 arg) in
  let sub := fun c d => sxB (sxnth d (nth c tb (L []))) in
  let xs := dec_elems (sxnth 1 arg) in
  let ys := dec_elems (sxnth 2 arg) in
  L [SB (cont_eq sub xs ys); SB (cont_eq sub ys xs)].
