(* Entry points for fields and lines (C01, C02, C03, C09, C11). Definitions only. *)
From Coq Require Import ZArith NArith List Bool Arith.
From Coq Require Import Floats.SpecFloat.
From Cfi Require Import Glue.Sx Py.PyStr Py.PyNum Py.PyBits Py.PyDate Model.Field Model.Line.
Import ListNotations.

Definition Sostr (o : option str) : sx := match o with Some s => L [Sstr s] | None => L [] end.

(* FIELD: (op field ...) *)
Definition run_field (arg : sx) : sx :=
  let f := dec_field (sxnth 1 arg) in
  let a2 := sxnth 2 arg in
  let a3 := sxnth 3 arg in
  match sxZ (sxnth 0 arg) with
  | 0%Z => Sostr (field_write f (dec_value a2) (sxS a3))
  | 1%Z => Svalue (field_read f (sxS a2))
  | 2%Z => Sostr (field_write_bin f (dec_value a2) (sxS a3))
  | 3%Z => Svalue (field_read_bin f (sxS a2))
  | 4%Z => L [Sostr (render f (dec_value a2)); SB (fits f (dec_value a2))]
  | 5%Z => Sostr (field_write_gen false f (dec_value a2) (sxS a3))
  | 6%Z => L [Sostr (field_write f (dec_value a2) (sxS a3)); SB (fits f (dec_value a2))]
  | 7%Z => L [Sostr (field_write_bin f (dec_value a2) (sxS a3)); SB (fits_bin f (dec_value a2))]
  | _ => L [I (-997)%Z]
  end.

(* fields with slots: list of (field value) *)
Definition dec_lstate (s : sx) : lstate := map (fun fv => (dec_field (sxnth 0 fv), dec_value (sxnth 1 fv))) (sxL s).
Definition dec_sto (s : sx) : storage := if sxB s then Binary else Text.
Definition dec_delim (s : sx) : option str := sxopt sxS s.
Definition dec_vals (s : sx) : list value := map dec_value (sxL s).
Definition Svals (vs : list value) : sx := L (map Svalue vs).

(* LINE: (variant (fields vals-opt delim-opt sto) ops); variant bit 0: separator ignored on write
   (code as found), bit 1: delimited read does not clear the slots (code as found).
   ops: (0 fields) (1 vals) (2 delim) (3 sto) setters; (4 text) read; (5 vals) write; (6) values;
        (7) size; (8 vals) fits per field; (9) read the text last written; (10) write the values last read *)
Definition with_st (o : lineobj) (st : lstate) : lineobj :=
  {| lo_st := st; lo_vals := lo_vals o; lo_delim := lo_delim o; lo_sto := lo_sto o |}.

Fixpoint run_line_ops (sow reset : bool) (o : lineobj) (lastT : str) (lastV : list value) (ops : list sx) : list sx :=
  match ops with
  | [] => []
  | op :: r =>
      let a := sxnth 1 op in
      let do_read := fun (t : str) =>
        let st := line_read_gen reset (lo_sto o) (lo_delim o) (lo_st o) t in
        Svals (values_of st) :: run_line_ops sow reset (with_st o st) lastT (values_of st) r in
      let do_write := fun (vs : list value) =>
        let (st, t) := line_write_gen sow (lo_sto o) (lo_delim o) (lo_st o) vs in
        Sostr t :: run_line_ops sow reset (with_st o st) (match t with Some x => x | None => [] end) lastV r in
      match sxZ (sxnth 0 op) with
      | 0%Z => L [] :: run_line_ops sow reset (apply_setter o (SetFields (dec_lstate a))) lastT lastV r
      | 1%Z => L [] :: run_line_ops sow reset (apply_setter o (SetValues (dec_vals a))) lastT lastV r
      | 2%Z => L [] :: run_line_ops sow reset (apply_setter o (SetDelim (dec_delim a))) lastT lastV r
      | 3%Z => L [] :: run_line_ops sow reset (apply_setter o (SetStorage (dec_sto a))) lastT lastV r
      | 4%Z => do_read (sxS a)
      | 5%Z => do_write (dec_vals a)
      | 6%Z => Svals (values_of (lo_st o)) :: run_line_ops sow reset o lastT lastV r
      | 8%Z => L (map (fun fv => SB ((match lo_sto o with Binary => fits_bin | Text => fits end) (fst fv) (snd fv)))
                      (combine (fields_of (lo_st o)) (dec_vals a))) :: run_line_ops sow reset o lastT lastV r
      | 9%Z => do_read lastT
      | 10%Z => do_write lastV
      | _ => Snat (lo_size o) :: run_line_ops sow reset o lastT lastV r
      end
  end.

Definition run_line (arg : sx) : sx :=
  let variant := sxZ (sxnth 0 arg) in
  let c := sxnth 1 arg in
  let o := mk_line (dec_lstate (sxnth 0 c)) (sxopt dec_vals (sxnth 1 c)) (dec_delim (sxnth 2 c)) (dec_sto (sxnth 3 c)) in
  L (run_line_ops (negb (Z.odd variant)) (negb (Z.odd (variant / 2))) o [] [] (sxL (sxnth 2 arg))).
