(* L1: lines (components/line.py, adapters/components/line/repository.py).
   A line object is a list of field objects, each with a mutable value slot and (because the
   delimited code path re-bases fields to column 0) a mutable position.
   The model is of the repaired code: a delimited read clears the slots first
   ([reset_on_delim = true]); the code as found is [false]. Definitions only. *)
From Coq Require Import ZArith NArith List Bool Arith.
From Coq Require Import Floats.SpecFloat.
From Cfi Require Import Glue.Sx Py.PyStr Py.PyNum Py.PyBits Py.PyDate Model.Field.
Import ListNotations.

(* field objects with their slots *)
Definition lstate := list (field * value).
Definition fields_of (st : lstate) : list field := map fst st.
Definition values_of (st : lstate) : list value := map snd st.
Definition mk_state (fs : list field) : lstate := map (fun f => (f, VNone)) fs.

(* Repository.values = vals : zip(fields, vals) -- surplus fields keep their slot *)
Fixpoint set_values (st : lstate) (vs : list value) : lstate :=
  match st, vs with
  | (f, _) :: st', v :: vs' => (f, v) :: set_values st' vs'
  | _, _ => st
  end.

(* ---------- positional text *)
Definition read_pos (st : lstate) (l : str) : lstate := map (fun fv => (fst fv, field_read (fst fv) l)) st.

Fixpoint write_fields (sow : bool) (st : lstate) (l : str) : option str :=
  match st with
  | [] => Some l
  | (f, v) :: st' => match field_write_gen sow f v l with
                     | Some l' => write_fields sow st' l'
                     | None => None
                     end
  end.
Definition write_pos_gen (sow : bool) (st : lstate) (vs : list value) : lstate * option str :=
  let st' := set_values st vs in
  (st', option_map (fun l => l ++ [NL]) (write_fields sow st' [])).

(* ---------- delimited text *)
Definition rebase (f : field) : field := {| kind := kind f; size := size f; start := 0 |}.
Definition rebase_all (st : lstate) : lstate := map (fun fv => (rebase (fst fv), snd fv)) st.

Fixpoint read_tokens (st : lstate) (toks : list str) : lstate :=
  match st, toks with
  | (f, _) :: st', t :: toks' => (f, field_read f t) :: read_tokens st' toks'
  | _, _ => st
  end.
Definition clear (st : lstate) : lstate := map (fun fv => (fst fv, VNone)) st.
Definition read_delim_gen (reset : bool) (st : lstate) (d : str) (l : str) : lstate :=
  let st1 := rebase_all st in
  let st2 := if reset then clear st1 else st1 in
  read_tokens st2 (map (strip is_space) (split d l)).

Fixpoint render_tokens (sow : bool) (st : lstate) : option (list str) :=
  match st with
  | [] => Some []
  | (f, v) :: st' =>
      match field_write_gen sow f v [], render_tokens sow st' with
      | Some t, Some r => Some (strip is_space t :: r)
      | _, _ => None
      end
  end.
Definition write_delim_gen (sow : bool) (st : lstate) (d : str) (vs : list value) : lstate * option str :=
  let st' := set_values (rebase_all st) vs in
  (st', option_map (fun ts => join d ts ++ [NL]) (render_tokens sow st')).

(* ---------- binary *)
Definition read_bin (st : lstate) (l : list N) : lstate := map (fun fv => (fst fv, field_read_bin (fst fv) l)) st.
Fixpoint write_fields_bin (st : lstate) (l : list N) : option (list N) :=
  match st with
  | [] => Some l
  | (f, v) :: st' => match field_write_bin f v l with
                     | Some l' => write_fields_bin st' l'
                     | None => None
                     end
  end.
Definition write_bin (st : lstate) (vs : list value) : lstate * option (list N) :=
  let st' := set_values st vs in (st', write_fields_bin st' []).

(* ---------- Line.read / Line.write dispatch (storage, delimiter) *)
Inductive storage := Text | Binary.
Definition line_read_gen (reset : bool) (sto : storage) (delim : option str) (st : lstate) (l : str) : lstate :=
  match sto, delim with
  | Binary, _ => read_bin st l
  | Text, Some d => read_delim_gen reset st d l
  | Text, None => read_pos st l
  end.
Definition line_write_gen (sow : bool) (sto : storage) (delim : option str) (st : lstate) (vs : list value)
  : lstate * option str :=
  match sto, delim with
  | Binary, _ => write_bin st vs
  | Text, Some d => write_delim_gen sow st d vs
  | Text, None => write_pos_gen sow st vs
  end.

(* the repaired code *)
Definition line_read := line_read_gen true.
Definition line_write := line_write_gen true.
Definition write_pos := write_pos_gen true.
Definition read_delim := read_delim_gen true.
Definition write_delim := write_delim_gen true.

(* furthest field end *)
Definition max_stop (fs : list field) : nat := fold_right (fun f m => Nat.max (stop f) m) 0 fs.

(* ---------- the Line object with its setters (components/line.py, repaired: the fields and
   values setters keep the attributes the storage setter rebuilds the repository from) *)
Record lineobj := { lo_st : lstate; lo_vals : option (list value); lo_delim : option str; lo_sto : storage }.
Definition apply_vals (st : lstate) (vs : option (list value)) : lstate :=
  match vs with Some v => set_values st v | None => st end.
(* Line(fields, values, delimiter, storage); the field objects come with their current slots *)
Definition mk_line (st : lstate) (vs : option (list value)) (d : option str) (sto : storage) : lineobj :=
  {| lo_st := apply_vals st vs; lo_vals := vs; lo_delim := d; lo_sto := sto |}.
Inductive setter :=
| SetFields (st : lstate)              (* line.fields = [...] : field objects with their slots *)
| SetValues (vs : list value)
| SetDelim (d : option str)
| SetStorage (s : storage).
Definition apply_setter (o : lineobj) (s : setter) : lineobj :=
  match s with
  | SetFields st => {| lo_st := st; lo_vals := lo_vals o; lo_delim := lo_delim o; lo_sto := lo_sto o |}
  | SetValues vs => {| lo_st := set_values (lo_st o) vs; lo_vals := Some vs; lo_delim := lo_delim o; lo_sto := lo_sto o |}
  | SetDelim d => {| lo_st := lo_st o; lo_vals := lo_vals o; lo_delim := d; lo_sto := lo_sto o |}
  | SetStorage s => {| lo_st := apply_vals (lo_st o) (lo_vals o); lo_vals := lo_vals o; lo_delim := lo_delim o; lo_sto := s |}
  end.
Definition lo_read (o : lineobj) (l : str) : lineobj * list value :=
  let st := line_read (lo_sto o) (lo_delim o) (lo_st o) l in
  ({| lo_st := st; lo_vals := lo_vals o; lo_delim := lo_delim o; lo_sto := lo_sto o |}, values_of st).
Definition lo_write (o : lineobj) (vs : list value) : lineobj * option str :=
  let (st, r) := line_write (lo_sto o) (lo_delim o) (lo_st o) vs in
  ({| lo_st := st; lo_vals := lo_vals o; lo_delim := lo_delim o; lo_sto := lo_sto o |}, r).
(* Line.size *)
Definition lo_size (o : lineobj) : nat := fold_right (fun f a => size f + a) 0 (fields_of (lo_st o)).
