(* L1: fields (components/field.py, literalfield.py, integerfield.py, floatfield.py,
   datetimefield.py). The model is of the repaired code: FloatField renders with its configured
   decimal separator ([sep_on_write = true]); the code as found is [sep_on_write = false].
   Definitions only. *)
From Coq Require Import ZArith NArith List Bool Arith.
From Coq Require Import Floats.SpecFloat.
From Cfi Require Import Glue.Sx Py.PyStr Py.PyNum Py.PyBits Py.PyDate.
Import ListNotations.

Inductive value :=
| VNone
| VNaT                       (* pandas.NaT *)
| VInt (z : Z)
| VFloat (x : spec_float)    (* S754_nan is float('nan') *)
| VStr (s : str)
| VDate (d : dt).

Inductive fkind :=
| KLit
| KInt
| KFloat (dd : nat) (sci : bool) (upper : bool) (sep : str)
| KDate (fmts : list (list dtok)).

Record field := { kind : fkind; size : nat; start : nat }.
Definition stop (f : field) : nat := start f + size f.
Definition span (f : field) (l : str) : str := slice (start f) (stop f) l.

(* value is None or pd.isnull(value) *)
Definition missing (v : value) : bool :=
  match v with
  | VNone | VNaT => true
  | VFloat S754_nan => true
  | _ => false
  end.

(* ---------- text rendering (_textual_write); None = the call raises / value of the wrong type *)
Definition is_zero (x : spec_float) : bool := match x with S754_zero _ => true | _ => false end.

(* F notation (and E notation of zero): the most decimals, from dd down to 0, whose text fits *)
Fixpoint first_fit (r : nat -> str) (width : nat) (d : nat) : str :=
  let t := r d in
  match d with
  | O => t
  | S d' => if Nat.leb (length t) width then t else first_fit r width d'
  end.

Definition with_sep (sep_on_write : bool) (sep : str) (t : str) : str :=
  if sep_on_write then replace [DOT] sep t else t.

(* the text before the E-notation truncation value[:size] *)
Definition float_text_full (sep_on_write : bool) (width dd : nat) (sci upper : bool) (sep : str) (x : spec_float) : str :=
  if sci && negb (is_zero x)
  then with_sep sep_on_write sep (fmtE upper (sci_val x dd) dd)
  else first_fit (fun d => with_sep sep_on_write sep ((if sci then fmtE else fmtF) upper x d)) width dd.
Definition float_text (sep_on_write : bool) (width dd : nat) (sci upper : bool) (sep : str) (x : spec_float) : str :=
  let t := float_text_full sep_on_write width dd sci upper sep x in
  if sci && negb (is_zero x) then firstn width t else t.

Definition render_gen (sep_on_write : bool) (f : field) (v : value) : option str :=
  if missing v then Some (pad (size f))
  else
    match kind f, v with
    | KLit, VStr s => Some (ljust (size f) s)
    | KInt, VInt z => Some (rjust (size f) (str_of_Z z))
    | KFloat dd sci upper sep, VFloat x =>
        if sci && sci_raises x dd then None
        else Some (rjust (size f) (float_text sep_on_write (size f) dd sci upper sep x))
    | KDate (fmt :: _), VDate d => Some (ljust (size f) (strftime fmt d))
    | _, _ => None
    end.
Definition render := render_gen true.

(* Field.write(line) on a str line: pad to the span end, splice *)
Definition splice (f : field) (v : str) (l : str) : str :=
  let l' := if Nat.ltb (length l) (stop f) then ljust (stop f) l else l in
  firstn (start f) l' ++ v ++ skipn (stop f) l'.
Definition field_write_gen (sow : bool) (f : field) (v : value) (l : str) : option str :=
  option_map (fun t => splice f t l) (render_gen sow f v).
Definition field_write := field_write_gen true.

(* "fits": the rendering is exactly as wide as the field and, for floats, nothing was cut off
   (an E-notation text longer than the field is truncated by the code: outside the domain) *)
Definition fits (f : field) (v : value) : bool :=
  match render f v with
  | Some t =>
      Nat.eqb (length t) (size f) &&
      match kind f, v with
      | KFloat dd sci upper sep, VFloat x =>
          missing v || Nat.leb (length (float_text_full true (size f) dd sci upper sep x)) (size f)
      | _, _ => true
      end
  | None => false
  end.

(* ---------- text reading (_textual_read inside Field.read's try/except ValueError) *)
Fixpoint first_parse (fmts : list (list dtok)) (s : str) : option dt :=
  match fmts with
  | [] => None
  | fmt :: r => match strptime fmt s with Some d => Some d | None => first_parse r s end
  end.

(* the reference interpretation of a span *)
Definition interp (k : fkind) (s : str) : value :=
  match k with
  | KLit => VStr (strip is_space s)
  | KInt => match int_of_str s with Some z => VInt z | None => VNone end
  | KFloat _ _ _ sep => match float_of_str (replace sep [DOT] s) with Some x => VFloat x | None => VNone end
  | KDate fmts => match first_parse fmts (strip is_space s) with Some d => VDate d | None => VNone end
  end.
Definition field_read (f : field) (l : str) : value := interp (kind f) (span f l).

(* ---------- binary storage *)
Definition num_width (f : field) : nat :=
  match size f with 2 => 2 | 8 => 8 | _ => 4 end.

Definition render_bin (f : field) (v : value) : option (list N) :=
  match kind f with
  | KLit =>
      if missing v then Some (pad (size f))
      else match v with VStr s => utf8_encode (ljust (size f) s) | _ => None end
  | KInt =>
      if missing v then int_enc (num_width f) 0
      else match v with VInt z => int_enc (num_width f) z | _ => None end
  | KFloat _ _ _ _ =>
      if missing v then Some (float_enc (num_width f) (S754_zero false))
      else match v with VFloat x => Some (float_enc (num_width f) x) | _ => None end
  | KDate fmts =>
      if missing v then Some (pad (size f))
      else match fmts, v with fmt :: _, VDate d => utf8_encode (ljust (size f) (strftime fmt d)) | _, _ => None end
  end.
Definition field_write_bin (f : field) (v : value) (l : list N) : option (list N) :=
  option_map (fun t => splice f t l) (render_bin f v).

Definition fits_bin (f : field) (v : value) : bool :=
  match render_bin f v with Some t => Nat.eqb (length t) (size f) | None => false end.

Definition interp_bin (f : field) (s : list N) : value :=
  match kind f with
  | KLit => match utf8_decode s with Some t => VStr (strip is_space t) | None => VNone end
  | KInt => match int_dec (num_width f) s with Some z => VInt z | None => VNone end
  | KFloat _ _ _ _ => match float_dec (num_width f) s with Some x => VFloat x | None => VNone end
  | KDate fmts => match utf8_decode s with
                  | Some t => match first_parse fmts (strip is_space t) with Some d => VDate d | None => VNone end
                  | None => VNone
                  end
  end.
Definition field_read_bin (f : field) (l : list N) : value := interp_bin f (span f l).

(* ---------- sx codecs *)
Definition dec_kind (s : sx) : fkind :=
  match sxZ (sxnth 0 s) with
  | 0%Z => KLit
  | 1%Z => KInt
  | 2%Z => KFloat (sxnat (sxnth 1 s)) (sxB (sxnth 2 s)) (sxB (sxnth 3 s)) (sxS (sxnth 4 s))
  | _ => KDate (map dec_fmt (sxL (sxnth 1 s)))
  end.
(* field = (kind size start) *)
Definition dec_field (s : sx) : field :=
  {| kind := dec_kind (sxnth 0 s); size := sxnat (sxnth 1 s); start := sxnat (sxnth 2 s) |}.
(* value = () None | (1) NaT | (2 z) | (3 bits) | (4 str) | (5 dt) *)
Definition dec_value (s : sx) : value :=
  match sxL s with
  | [] => VNone
  | t :: r =>
      let a := nth 0 r (L []) in
      match sxZ t with
      | 1%Z => VNaT
      | 2%Z => VInt (sxZ a)
      | 3%Z => VFloat (sf_of_b64 (sxZ a))
      | 4%Z => VStr (sxS a)
      | _ => VDate (dec_dt a)
      end
  end.
Definition Svalue (v : value) : sx :=
  match v with
  | VNone => L []
  | VNaT => L [I 1%Z]
  | VInt z => L [I 2%Z; I z]
  | VFloat x => L [I 3%Z; I (b64_of_sf x)]
  | VStr s => L [I 4%Z; Sstr s]
  | VDate d => L [I 5%Z; Sdt d]
  end.
