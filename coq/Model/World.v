(* L5: the object graph -- which mutable Python objects are shared by whom.
   Python objects with identity are indices into heaps: Line objects (shared at class level by all
   registers of a class, possibly by several classes), list objects (register data, results of
   Line.read), containers, files.  The model is of the repaired code: File() builds a fresh container
   ([fresh_default = true]); the code as found evaluated the default container once ([false]).
   Definitions only. *)
From Coq Require Import ZArith NArith List Bool Arith.
From Coq Require Import Floats.SpecFloat.
From Cfi Require Import Glue.Sx Py.PyStr Py.PyNum Py.PyBits Py.PyDate Model.Field Model.Line Model.LineRun.
Import ListNotations.

Record world := {
  lines : list lineobj;           (* Line objects; index = identity *)
  lists : list (list value);      (* Python list objects; index = identity *)
  regs : list (nat * nat);        (* register = (its class's Line object, its data list) *)
  results : list nat;             (* lists handed to the user as results of Line.read *)
  conts : list (list nat);        (* containers = sequences of element ids *)
  files : list nat;               (* file = its container *)
  next_elem : nat                 (* allocation counter for container elements *)
}.

Definition upd {A} (n : nat) (a : A) (l : list A) : list A :=
  firstn n l ++ match skipn n l with [] => [] | _ :: r => a :: r end.
Definition get {A} (d : A) (n : nat) (l : list A) : A := nth n l d.

Definition empty_line : lineobj := {| lo_st := []; lo_vals := None; lo_delim := None; lo_sto := Text |}.

Inductive wop :=
| ONewReg (ln : nat)                      (* Register() of a class whose LINE is line ln *)
| ORegRead (r : nat) (text : str)         (* register.read(...) on a line of text *)
| ORegWrite (r : nat)                     (* register.write(...) *)
| OLineRead (ln : nat) (text : str)       (* the user calls Line.read and keeps the result *)
| OMutList (l i : nat) (v : value)        (* the user mutates a list it holds: l[i] = v *)
| OSetSlot (ln i : nat) (v : value)       (* field.value = v on a (shared) field object *)
| ONewFile                                (* File() *)
| OFileRead (n : nat)                     (* File.read(content) yielding n elements *)
| OAppend (f : nat)                       (* file.data.append(fresh element) *)
| ORemoveLast (f : nat)                   (* file.data.remove(last) when more than one element *)
| OMove (fa fb : nat).                    (* e = second element of file fa (when it has >= 3); fa.data.remove(e); fb.data.append(e) *)

Definition set_slot (o : lineobj) (i : nat) (v : value) : lineobj :=
  {| lo_st := map (fun p => (fst (snd p), if Nat.eqb (fst p) i then v else snd (snd p)))
                  (combine (seq 0 (length (lo_st o))) (lo_st o));
     lo_vals := lo_vals o; lo_delim := lo_delim o; lo_sto := lo_sto o |}.

Definition with_lines (w : world) (x : list lineobj) : world :=
  {| lines := x; lists := lists w; regs := regs w; results := results w; conts := conts w; files := files w; next_elem := next_elem w |}.

Section Step.
  Variable fresh_default : bool.

  (* (new world, output of the call if any) *)
  Definition step (w : world) (o : wop) : world * option (option str) :=
    match o with
    | ONewReg ln =>
        let n := length (lo_st (get empty_line ln (lines w))) in
        ({| lines := lines w; lists := lists w ++ [repeat VNone n]; regs := regs w ++ [(ln, length (lists w))];
            results := results w; conts := conts w; files := files w; next_elem := next_elem w |}, None)
    | ORegRead r text =>
        match nth_error (regs w) r with
        | None => (w, None)
        | Some (ln, _) =>
            let (lo', vals) := lo_read (get empty_line ln (lines w)) text in
            ({| lines := upd ln lo' (lines w); lists := lists w ++ [vals]; regs := upd r (ln, length (lists w)) (regs w);
                results := results w; conts := conts w; files := files w; next_elem := next_elem w |}, None)
        end
    | ORegWrite r =>
        match nth_error (regs w) r with
        | None => (w, None)
        | Some (ln, l) =>
            (* Register.write does nothing at all for a register whose values are all None *)
            if forallb (fun v => match v with VNone => true | _ => false end) (get [] l (lists w)) then (w, Some (Some []))
            else
            let (lo', out) := lo_write (get empty_line ln (lines w)) (get [] l (lists w)) in
            (with_lines w (upd ln lo' (lines w)), Some out)
        end
    | OLineRead ln text =>
        let (lo', vals) := lo_read (get empty_line ln (lines w)) text in
        ({| lines := upd ln lo' (lines w); lists := lists w ++ [vals]; regs := regs w;
            results := results w ++ [length (lists w)]; conts := conts w; files := files w; next_elem := next_elem w |}, None)
    | OMutList l i v =>
        ({| lines := lines w; lists := upd l (upd i v (get [] l (lists w))) (lists w); regs := regs w;
            results := results w; conts := conts w; files := files w; next_elem := next_elem w |}, None)
    | OSetSlot ln i v => (with_lines w (upd ln (set_slot (get empty_line ln (lines w)) i v) (lines w)), None)
    | ONewFile =>
        if fresh_default then
          ({| lines := lines w; lists := lists w; regs := regs w; results := results w;
              conts := conts w ++ [[next_elem w]]; files := files w ++ [length (conts w)]; next_elem := S (next_elem w) |}, None)
        else  (* the one container created when the class body was evaluated: container 0 *)
          ({| lines := lines w; lists := lists w; regs := regs w; results := results w;
              conts := conts w; files := files w ++ [0]; next_elem := next_elem w |}, None)
    | OFileRead n =>
        ({| lines := lines w; lists := lists w; regs := regs w; results := results w;
            conts := conts w ++ [seq (next_elem w) (S n)]; files := files w ++ [length (conts w)];
            next_elem := next_elem w + S n |}, None)
    | OAppend f =>
        match nth_error (files w) f with
        | None => (w, None)
        | Some c =>
            ({| lines := lines w; lists := lists w; regs := regs w; results := results w;
                conts := upd c (get [] c (conts w) ++ [next_elem w]) (conts w); files := files w;
                next_elem := S (next_elem w) |}, None)
        end
    | ORemoveLast f =>
        match nth_error (files w) f with
        | None => (w, None)
        | Some c =>
            let es := get [] c (conts w) in
            if Nat.ltb 1 (length es)
            then ({| lines := lines w; lists := lists w; regs := regs w; results := results w;
                     conts := upd c (removelast es) (conts w); files := files w; next_elem := next_elem w |}, None)
            else (w, None)
        end
    | OMove fa fb =>
        match nth_error (files w) fa, nth_error (files w) fb with
        | Some ca, Some cb =>
            match get [] ca (conts w) with
            | e0 :: e :: e2 :: rest =>
                let c1 := upd ca (e0 :: e2 :: rest) (conts w) in
                ({| lines := lines w; lists := lists w; regs := regs w; results := results w;
                    conts := upd cb (get [] cb c1 ++ [e]) c1; files := files w; next_elem := next_elem w |}, None)
            | _ => (w, None)
            end
        | _, _ => (w, None)
        end
    end.
End Step.

(* what the user can observe of each object *)
Definition obs_reg (w : world) (r : nat) : list value := get [] (snd (get (0, 0) r (regs w))) (lists w).
Definition obs_result (w : world) (k : nat) : list value := get [] (get 0 k (results w)) (lists w).
Definition obs_file (w : world) (f : nat) : list nat := get [] (get 0 f (files w)) (conts w).

(* the initial world: the given Line objects, and -- for the code as found -- the shared default container *)
Definition init (ls : list lineobj) : world :=
  {| lines := ls; lists := []; regs := []; results := []; conts := [[0]]; files := []; next_elem := 1 |}.

(* entry point: (fresh_default lines ops) -> per op: output, then all observations
   line = (fields vals-opt delim-opt sto) as in LINE; ops encoded by tag *)
Definition dec_wop (s : sx) : wop :=
  let a := sxnat (sxnth 1 s) in
  let b := sxnat (sxnth 2 s) in
  match sxZ (sxnth 0 s) with
  | 0%Z => ONewReg a
  | 1%Z => ORegRead a (sxS (sxnth 2 s))
  | 2%Z => ORegWrite a
  | 3%Z => OLineRead a (sxS (sxnth 2 s))
  | 4%Z => OMutList a b (dec_value (sxnth 3 s))
  | 5%Z => OSetSlot a b (dec_value (sxnth 3 s))
  | 6%Z => ONewFile
  | 7%Z => OFileRead a
  | 8%Z => OAppend a
  | 9%Z => ORemoveLast a
  | _ => OMove a b
  end.

Definition observe_world (w : world) : sx :=
  L [ L (map (fun r => Svals (obs_reg w r)) (seq 0 (length (regs w))));
      L (map (fun k => Svals (obs_result w k)) (seq 0 (length (results w))));
      L (map (fun f => L (map Snat (obs_file w f))) (seq 0 (length (files w))));
      (* identity structure: which register / result / file owns which list / container *)
      L (map (fun p => Snat (snd p)) (regs w)); L (map Snat (results w)); L (map Snat (files w));
      (* what each Line object's Field objects hold (field.value) *)
      L (map (fun lo => Svals (map snd (lo_st lo))) (lines w)) ].

Fixpoint run_wops (fd : bool) (w : world) (ops : list sx) : list sx :=
  match ops with
  | [] => []
  | o :: r =>
      let (w', out) := step fd w (dec_wop o) in
      L [match out with Some t => Sostr t | None => L [I (-1)%Z] end; observe_world w'] :: run_wops fd w' r
  end.

Definition run_C14 (arg : sx) : sx :=
  let fd := sxB (sxnth 0 arg) in
  let ls := map (fun c => mk_line (dec_lstate (sxnth 0 c)) (sxopt dec_vals (sxnth 1 c)) (dec_delim (sxnth 2 c)) (dec_sto (sxnth 3 c)))
                (sxL (sxnth 1 arg)) in
  L (run_wops fd (init ls) (sxL (sxnth 2 arg))).
