(* C19: version selection (files/registerfile.py, blockfile.py, sectionfile.py: set_version).
   Definitions only. *)
From Coq Require Import ZArith NArith List Bool.
From Cfi Require Import Glue.Sx.
Import ListNotations.

(* Python's str comparison: lexicographic by code point *)
Fixpoint str_leb (a b : str) : bool :=
  match a, b with
  | [], _ => true
  | _ :: _, [] => false
  | x :: a', y :: b' =>
      if N.ltb x y then true else if N.ltb y x then false else str_leb a' b'
  end.

(* sorted(list(keys)) *)
Fixpoint insert (k : str) (l : list str) : list str :=
  match l with
  | [] => [k]
  | h :: t => if str_leb k h then k :: h :: t else h :: insert k t
  end.
Definition sort (l : list str) : list str := fold_right insert [] l.

Fixpoint last_opt {A} (l : list A) : option A :=
  match l with
  | [] => None
  | [a] => Some a
  | _ :: t => last_opt t
  end.

Section WithV.
  Variable V : Type.   (* a component list: opaque to set_version *)

  Definition table := list (str * V).

  Fixpoint lookup (k : str) (t : table) : option V :=
    match t with
    | [] => None
    | (k', v) :: r => if str_eqb k k' then Some v else lookup k r
    end.

  (* __find_closest_version *)
  Definition closest (keys : list str) (v : str) : option str :=
    last_opt (filter (fun k => str_leb k v) (sort keys)).

  (* body of set_version, on the values cls.VERSIONS and cls.REGISTERS resolve to *)
  Definition set_version (t : table) (v : str) (active : V) : V :=
    match closest (map fst t) v with
    | Some k => match lookup k t with Some r => r | None => active end
    | None => active
    end.

  (* class tree with inherited attribute lookup; class ids are list indices,
     a parent has a smaller index than its children *)
  Record cls := { parent : option nat; own_active : option V; own_table : option table }.
  Definition world := list cls.

  Fixpoint resolve {A} (get : cls -> option A) (w : world) (fuel : nat) (c : nat) : option A :=
    match fuel with
    | O => None
    | S f =>
        match nth_error w c with
        | None => None
        | Some k =>
            match get k with
            | Some a => Some a
            | None => match parent k with Some p => resolve get w f p | None => None end
            end
        end
    end.

  (* the classes attribute lookup visits, up to and including the first own binding *)
  Fixpoint visited {A} (get : cls -> option A) (w : world) (fuel : nat) (c : nat) : list nat :=
    match fuel with
    | O => []
    | S f =>
        match nth_error w c with
        | None => [c]
        | Some k =>
            match get k with
            | Some _ => [c]
            | None => c :: match parent k with Some p => visited get w f p | None => [] end
            end
        end
    end.

  Fixpoint set_nth {A} (n : nat) (f : A -> A) (l : list A) : list A :=
    match l, n with
    | [], _ => []
    | a :: r, O => f a :: r
    | a :: r, S n' => a :: set_nth n' f r
    end.

  (* cls.set_version(v): reads cls.VERSIONS / cls.REGISTERS through inheritance, assigns on cls *)
  Definition set_version_cls (w : world) (c : nat) (v : str) : world :=
    match resolve own_table w (length w) c, resolve own_active w (length w) c with
    | Some t, Some a =>
        match closest (map fst t) v with
        | Some k =>
            let r := match lookup k t with Some r => r | None => a end in
            set_nth c (fun k => {| parent := parent k; own_active := Some r; own_table := own_table k |}) w
        | None => w
        end
    | _, _ => w
    end.

  Definition active_of (w : world) (c : nat) : option V := resolve own_active w (length w) c.
End WithV.

Arguments lookup {V}.
Arguments set_version {V}.
Arguments set_version_cls {V}.
Arguments active_of {V}.
Arguments resolve {V A}.
Arguments visited {V A}.
Arguments Build_cls {V}.
Arguments parent {V}.
Arguments own_active {V}.
Arguments own_table {V}.

(* entry point for the correspondence check:
   arg = (classes ops queries)
     classes = list of (parent-or-[] active-or-[] table-or-[]), table = list of (key val), val : Z
     ops     = list of (class version)
   result  = list over classes of (resolved active or []) after all ops *)
Definition dec_cls (s : sx) : cls Z :=
  {| parent := sxopt sxnat (sxnth 0 s);
     own_active := sxopt sxZ (sxnth 1 s);
     own_table := sxopt (fun t => map (fun kv => (sxS (sxnth 0 kv), sxZ (sxnth 1 kv))) (sxL t)) (sxnth 2 s) |}.

Definition run_C19 (arg : sx) : sx :=
  let w := map dec_cls (sxL (sxnth 0 arg)) in
  let ops := sxL (sxnth 1 arg) in
  let w' := fold_left (fun w o => set_version_cls w (sxnat (sxnth 0 o)) (sxS (sxnth 1 o))) ops w in
  L (map (fun c => Sopt I (active_of w' c)) (seq 0 (length w'))).
