(* Entry points for register / block / section files (C04 C05 C06 C10 C12 C13 C18). Definitions only. *)
From Coq Require Import ZArith NArith List Bool Arith.
From Coq Require Import Floats.SpecFloat.
From Cfi Require Import Glue.Sx Py.PyStr Py.PyNum Py.PyBits Py.PyDate Py.PyRe Model.Field Model.Line Model.LineRun Model.Reader.
Import ListNotations.

Definition dec_regdef (s : sx) : regdef :=
  {| r_ident := sxS (sxnth 0 s); r_digits := sxnat (sxnth 1 s);
     r_fields := map dec_field (sxL (sxnth 2 s)); r_delim := dec_delim (sxnth 3 s);
     (* optional fifth component: the identifier as a regular expression *)
     r_pat := sxopt dec_re (sxnth 4 s) |}.

Definition Selem (e : elem) : sx :=
  match e with
  | ETyped i d => L [Snat i; Svals d]
  | EDefault (Some t) => L [I (-1)%Z; Sstr t]
  | EDefault None => L [I (-1)%Z]
  end.
Definition dec_elem (s : sx) : elem :=
  if (sxZ (sxnth 0 s) <? 0)%Z then EDefault (sxopt sxS (L (tl (sxL s))))
  else ETyped (sxnat (sxnth 0 s)) (dec_vals (sxnth 1 s)).

Definition OUT_OF_FUEL : sx := L [I (-3)%Z].

Section Reg.
  Variables (fixed_req fixed_def : bool) (sto : storage) (linesize : nat) (rs : list regdef).
  Definition R (x : str) : option (list elem) :=
    option_map (map (to_elem sto rs)) (read_regfile fixed_req fixed_def sto linesize rs (S (S (length x))) x).
  Definition W (es : list elem) : option str := write_elems sto rs es.
  (* positions: cumulative consumed lengths, i.e. buffer.tell() after each element *)
  Definition positions (x : str) : option (list nat) :=
    option_map (fun es => snd (fold_left (fun acc e => let p := fst acc + length (snd e) in (p, snd acc ++ [p])) es (0, [])))
               (read_regfile fixed_req fixed_def sto linesize rs (S (S (length x))) x).
End Reg.

(* values inside the properties' domain: finite floats, dates with year >= 1000 *)
Definition representable_value (v : value) : bool :=
  match v with
  | VFloat (S754_infinity _) => false
  | VDate d => (1000 <=? dY d)%Z
  | _ => true
  end.

(* do all values of the typed elements fit their fields? (the "representable" premise of C06) *)
Definition elem_fits (sto : storage) (rs : list regdef) (e : elem) : bool :=
  match e with
  | ETyped i d =>
      let fs := r_fields (nth_reg rs i) in
      Nat.eqb (length fs) (length d) &&
      forallb (fun fv => (match sto with Binary => fits_bin | Text => fits end)
                           (match r_delim (nth_reg rs i), sto with Some _, Text => rebase (fst fv) | _, _ => fst fv end) (snd fv)
                         && representable_value (snd fv))
              (combine fs d)
  | EDefault _ => true
  end.

(* REGSTREAM: (variant sto regdefs records), record = (idx data): write every record with its own type, then
   read the concatenation back with the same types in the same order, as Register.write / Register.read do.
   result: per record (chunk, consumed, data, position after the read, matches?) *)
Fixpoint read_stream (fr : bool) (sto : storage) (rs : list regdef) (recs : list (nat * list value)) (s : str) (pos : nat) : list sx :=
  match recs with
  | [] => []
  | (i, _) :: r =>
      let rd := nth_reg rs i in
      let (c, rest) := reg_consume fr sto rd s in
      L [Sstr c; Svals (reg_data sto rd c); Snat (pos + length c)] :: read_stream fr sto rs r rest (pos + length c)
  end.
Definition run_regstream (arg : sx) : sx :=
  let fr := negb (Z.odd (sxZ (sxnth 0 arg))) in
  let sto := dec_sto (sxnth 1 arg) in
  let rs := map dec_regdef (sxL (sxnth 2 arg)) in
  let recs := map (fun r => (sxnat (sxnth 0 r), dec_vals (sxnth 1 r))) (sxL (sxnth 3 arg)) in
  let chunks := map (fun r => write_elem sto rs (ETyped (fst r) (snd r))) recs in
  let all := fold_right (fun c acc => match c, acc with Some a, Some b => Some (a ++ b) | _, _ => None end) (Some []) chunks in
  match all with
  | None => L [L []]
  | Some text =>
      L [ L (map Sostr chunks);
          L (map (fun rc => SB (reg_matches (nth_reg rs (fst (fst rc))) (match snd rc with Some c => c | None => [] end)))
                 (combine recs chunks));
          L (read_stream fr sto rs recs text 0);
          L (map (fun r => SB (elem_fits sto rs (ETyped (fst r) (snd r)))) recs);
          (* the same stream read through the file-level loop with the given peek window *)
          match R fr true sto (sxnat (sxnth 4 arg)) rs text with Some es => L (map Selem es) | None => OUT_OF_FUEL end ]
  end.

(* REGFILE: (variant sto linesize regdefs mode payload)
     mode 0, payload = content x : (R x, tell positions, y = W (R x), W (R y))
     mode 1, payload = elements D: (W D, R (W D), tell positions)
   variant bit 0: binary read requests IDENTIFIER_DIGITS too many (as found); bit 1: binary default
   register consumes nothing (as found) *)
Definition run_regfile (arg : sx) : sx :=
  let variant := sxZ (sxnth 0 arg) in
  let fr := negb (Z.odd variant) in
  let fd := negb (Z.odd (variant / 2)) in
  let sto := dec_sto (sxnth 1 arg) in
  let ls := sxnat (sxnth 2 arg) in
  let rs := map dec_regdef (sxL (sxnth 3 arg)) in
  let payload := sxnth 5 arg in
  let Sel := fun o : option (list elem) => match o with Some es => L (map Selem es) | None => OUT_OF_FUEL end in
  let Spos := fun o : option (list nat) => match o with Some ps => L (map Snat ps) | None => OUT_OF_FUEL end in
  let mode := sxZ (sxnth 4 arg) in
  let xo := if (mode =? 2)%Z then W sto rs (map dec_elem (sxL payload)) else Some (sxS payload) in
  match mode with
  | 0%Z | 2%Z =>
      let x := match xo with Some t => t | None => [] end in
      let rx := R fr fd sto ls rs x in
      let y := match rx with Some es => W sto rs es | None => None end in
      let y2 := match y with
                | Some yt => match R fr fd sto ls rs yt with Some es => W sto rs es | None => None end
                | None => None
                end in
      L [Sel rx; Spos (positions fr fd sto ls rs x); Sostr y; Sostr y2;
         SB (match rx, xo with Some es, Some _ => forallb (elem_fits sto rs) es | _, _ => false end
             && (if (mode =? 2)%Z then forallb (elem_fits sto rs) (map dec_elem (sxL payload)) else true)); Sstr x]
  | _ =>
      let d := map dec_elem (sxL payload) in
      let t := W sto rs d in
      match t with
      | Some txt => L [Sostr t; Sel (R fr fd sto ls rs txt); Spos (positions fr fd sto ls rs txt);
                       SB (forallb (elem_fits sto rs) d)]
      | None => L [L []; L []; L []; SB false]
      end
  end.

(* BLOCKFILE: (variant sto blockdefs content) -> (elements (type raw), written); variant bit 0: dispatch ignores storage *)
Definition dec_pattern (s : sx) : pattern := dec_re s.
Definition dec_blockdef (s : sx) : blockdef := {| b_begin := dec_pattern (sxnth 0 s); b_end := dec_pattern (sxnth 1 s) |}.
Definition Sraw (es : list (option nat * str)) : sx :=
  L (map (fun e => L [match fst e with Some i => Snat i | None => I (-1)%Z end; Sstr (snd e)]) es).

Definition run_blockfile (arg : sx) : sx :=
  let variant := sxZ (sxnth 0 arg) in
  let sto := dec_sto (sxnth 1 arg) in
  let bs := map dec_blockdef (sxL (sxnth 2 arg)) in
  let x := sxS (sxnth 3 arg) in
  match read_blockfile (negb (Z.odd variant)) sto bs (S (S (length x))) x with
  | Some es => L [Sraw es; Sstr (write_raw es)]
  | None => OUT_OF_FUEL
  end.

(* SECTIONFILE: (secdefs content) ; secdef = (0 k) | (1 pattern) *)
Definition dec_secdef (s : sx) : secdef :=
  match sxZ (sxnth 0 s) with
  | 0%Z => SecLines (sxnat (sxnth 1 s))
  | _ => SecUntil (dec_pattern (sxnth 1 s))
  end.
Definition run_sectionfile (arg : sx) : sx :=
  let ds := map dec_secdef (sxL (sxnth 0 arg)) in
  let x := sxS (sxnth 1 arg) in
  match read_sectionfile ds (S (S (length x))) x with
  | Some es => L [Sraw es; Sstr (write_raw es)]
  | None => OUT_OF_FUEL
  end.
