(* L2/L3: streams, registers, the three reading loops and the writers
   (components/register.py, defaultregister.py, defaultblock.py, defaultsection.py,
    adapters/components/repository.py, reading/*.py, writing/*.py).
   A stream is the not-yet-consumed suffix of the content; "peek, rewind" is reading from the same
   suffix twice.  Definitions only. *)
From Coq Require Import ZArith NArith List Bool Arith.
From Coq Require Import Floats.SpecFloat.
From Cfi Require Import Glue.Sx Py.PyStr Py.PyNum Py.PyBits Py.PyDate Py.PyRe Model.Field Model.Line.
Import ListNotations.

(* ---------- generic reading loop: registers and blocks *)
Section Loop.
  Variable T : Type.                             (* declared component types *)
  Variable peek : str -> str.                    (* what the loop looks at: a line / a byte window *)
  Variable dispatch : str -> option T.           (* first declared type accepting the peeked data *)
  Variable read_typed : T -> str -> str * str.   (* (consumed, rest) *)
  Variable read_default : str -> str * str.

  (* element = (type or default, consumed text) *)
  Definition relem := (option T * str)%type.

  Fixpoint read_loop (fuel : nat) (s : str) : option (list relem) :=
    match fuel with
    | O => None                                  (* out of fuel: the loop did not terminate within the budget *)
    | S f =>
        match peek s with
        | [] => Some []
        | p =>
            let t := dispatch p in
            let (c, rest) := match t with Some ty => read_typed ty s | None => read_default s end in
            option_map (cons (t, c)) (read_loop f rest)
        end
    end.
End Loop.
Arguments read_loop {T}.

(* first element of a list satisfying a predicate, with its index *)
Fixpoint find_idx {A} (p : A -> bool) (l : list A) (i : nat) : option nat :=
  match l with
  | [] => None
  | a :: r => if p a then Some i else find_idx p r (S i)
  end.

(* ---------- registers *)
(* r_pat: the identifier test as a regular expression when IDENTIFIER is not a plain literal. r_ident is the text that
   Register.write puts into the identifier columns: the IDENTIFIER attribute itself, i.e. for a regular-expression
   identifier its SOURCE text (such a register is re-readable only if the expression finds its own source: reg_wf) *)
Record regdef := { r_ident : str; r_digits : nat; r_fields : list field; r_delim : option str; r_pat : option re }.

Definition ident_field (r : regdef) : field := {| kind := KLit; size := r_digits r; start := 0 |}.
Definition composite (r : regdef) : list field := ident_field r :: r_fields r.
(* Line.size of the composite line: sum of the field sizes *)
Definition composite_size (r : regdef) : nat := fold_right (fun f a => size f + a) 0 (composite r).

(* Register.matches: re.search(IDENTIFIER, line[:IDENTIFIER_DIGITS]); for a metacharacter-free identifier that is
   substring search in the leading window (Proofs/ReProofs.v: re_search_lit) *)
Definition reg_matches (r : regdef) (line : str) : bool :=
  match r_pat r with
  | None => contains (r_ident r) (firstn (r_digits r) line)
  | Some p => re_search p (firstn (r_digits r) line)
  end.

(* bytes requested by Register.read in binary storage: repaired = the composite line width;
   as found = IDENTIFIER_DIGITS more *)
Definition bin_request (fixed : bool) (r : regdef) : nat :=
  if fixed then composite_size r else r_digits r + composite_size r.

Definition reg_consume (fixed : bool) (sto : storage) (r : regdef) (s : str) : str * str :=
  match sto with
  | Text => readline s
  | Binary => (firstn (bin_request fixed r) s, skipn (bin_request fixed r) s)
  end.

(* data of a typed register = what its composite line reads from the consumed text, minus the identifier *)
Definition reg_data (sto : storage) (r : regdef) (consumed : str) : list value :=
  tl (values_of (line_read sto (r_delim r) (mk_state (composite r)) consumed)).

(* DefaultRegister.read: one line in text storage; in binary storage the code as found consumes
   nothing (data None); repaired: it consumes one "line" of bytes as well *)
Definition default_consume (fixed : bool) (sto : storage) (s : str) : str * str :=
  match sto with
  | Text => readline s
  | Binary => if fixed then readline s else ([], s)
  end.

Definition reg_peek (sto : storage) (linesize : nat) (s : str) : str :=
  match sto with Text => fst (readline s) | Binary => firstn linesize s end.

Definition reg_dispatch (rs : list regdef) (p : str) : option nat := find_idx (fun r => reg_matches r p) rs 0.

Definition nth_reg (rs : list regdef) (i : nat) : regdef :=
  nth i rs {| r_ident := []; r_digits := 0; r_fields := []; r_delim := None; r_pat := None |}.

Definition read_regfile (fixed_req fixed_def : bool) (sto : storage) (linesize : nat) (rs : list regdef) (fuel : nat) (s : str)
  : option (list (option nat * str)) :=
  read_loop (T := nat) (reg_peek sto linesize) (reg_dispatch rs)
            (fun (i : nat) (s : str) => reg_consume fixed_req sto (nth_reg rs i) s)
            (default_consume fixed_def sto) fuel s.

(* elements as the file object holds them *)
Inductive elem :=
| ETyped (i : nat) (data : list value)
| EDefault (data : option str).     (* None: the binary default register of the code as found *)

Definition to_elem (sto : storage) (rs : list regdef) (e : option nat * str) : elem :=
  match fst e with
  | Some i => ETyped i (reg_data sto (nth_reg rs i) (snd e))
  | None => EDefault (Some (snd e))
  end.

(* Register.empty: all entries None *)
Definition all_none (d : list value) : bool := forallb (fun v => match v with VNone => true | _ => false end) d.

(* Register.write / DefaultRegister.write; None = the call raises *)
Definition write_elem (sto : storage) (rs : list regdef) (e : elem) : option str :=
  match e with
  | ETyped i d =>
      if all_none d then Some []
      else let r := nth_reg rs i in
           snd (line_write sto (r_delim r) (mk_state (composite r)) (VStr (r_ident r) :: d))
  | EDefault (Some t) => match sto with Text => Some t | Binary => Some t end
  | EDefault None => Some []
  end.

Fixpoint write_elems (sto : storage) (rs : list regdef) (es : list elem) : option str :=
  match es with
  | [] => Some []
  | e :: r => match write_elem sto rs e, write_elems sto rs r with
              | Some a, Some b => Some (a ++ b)
              | _, _ => None
              end
  end.

(* ---------- patterns: regular expressions (Py/PyRe.v); "found in the line" is re.search(...) is not None.
   The earlier literal-only language (alternations of optionally ^-anchored literals) is the instance
   RAlt (RSeq RBol (re_lit l)) ... -- Proofs/ReProofs.v: re_search_lit, re_search_anchored_lit, re_search_alt *)
Definition pattern := re.
Definition pat_search (p : pattern) (s : str) : bool := re_search p s.

(* ---------- blocks: the harness family of raw blocks -- from the first line up to and including the
   first line on which the end pattern is found, or the end of the input *)
Record blockdef := { b_begin : pattern; b_end : pattern }.

Fixpoint raw_block_fuel (fuel : nat) (ends : str -> bool) (s : str) : str * str :=
  match fuel with
  | O => ([], s)
  | S f =>
      match s with
      | [] => ([], [])
      | _ =>
          let (l, rest) := readline s in
          if ends l then (l, rest)
          else let (c, rest') := raw_block_fuel f ends rest in (l ++ c, rest')
      end
  end.
Definition raw_block (ends : str -> bool) (s : str) : str * str := raw_block_fuel (S (length s)) ends s.

(* binary raw block with one-byte markers: bytes up to and including the first end marker after the first byte *)
Fixpoint raw_bytes_fuel (fuel : nat) (ends : str -> bool) (s : str) : str * str :=
  match fuel with
  | O => ([], s)
  | S f =>
      match s with
      | [] => ([], [])
      | b :: rest =>
          if ends [b] then ([b], rest)
          else let (c, rest') := raw_bytes_fuel f ends rest in (b :: c, rest')
      end
  end.

Definition block_dispatch (uses_storage : bool) (sto : storage) (bs : list blockdef) (p : str) : option nat :=
  match sto, uses_storage with
  | Binary, false => None     (* code as found: begins() is asked in text mode, bytes never match *)
  | _, _ => find_idx (fun b => pat_search (b_begin b) p) bs 0
  end.

Definition nth_block (bs : list blockdef) (i : nat) : blockdef := nth i bs {| b_begin := re_never; b_end := re_never |}.

Definition read_blockfile (uses_storage : bool) (sto : storage) (bs : list blockdef) (fuel : nat) (s : str)
  : option (list (option nat * str)) :=
  read_loop (T := nat) (reg_peek sto 1) (block_dispatch uses_storage sto bs)
            (fun (i : nat) (s : str) => match sto with
                        | Text => raw_block (pat_search (b_end (nth_block bs i))) s
                        | Binary =>
                            (* the first byte is the begin marker; then up to and including the end marker *)
                            match s with
                            | [] => ([], [])
                            | b :: r => let (c, rest) := raw_bytes_fuel (S (length r)) (pat_search (b_end (nth_block bs i))) r in
                                        (b :: c, rest)
                            end
                        end)
            readline fuel s.

(* ---------- sections: declared sections are read once each, in order; then default sections *)
Inductive secdef :=
| SecLines (k : nat)             (* consumes k lines (fewer at the end of the input) *)
| SecUntil (p : pattern).        (* consumes lines up to and including the first one matching p, or to the end *)

Fixpoint take_lines (k : nat) (s : str) : str * str :=
  match k with
  | O => ([], s)
  | S k' => let (l, rest) := readline s in
            let (c, rest') := take_lines k' rest in (l ++ c, rest')
  end.

(* a raw section may consume nothing (empty input, or k = 0) *)
Definition sec_consume (d : secdef) (s : str) : str * str :=
  match d with
  | SecLines k => take_lines k s
  | SecUntil p => match s with [] => ([], []) | _ => raw_block (pat_search p) s end
  end.

Fixpoint read_declared (ds : list secdef) (i : nat) (s : str) : list (option nat * str) * str :=
  match ds with
  | [] => ([], s)
  | d :: r => let (c, rest) := sec_consume d s in
              let (es, rest') := read_declared r (S i) rest in
              ((Some i, c) :: es, rest')
  end.

Definition read_sectionfile (ds : list secdef) (fuel : nat) (s : str) : option (list (option nat * str)) :=
  let (es, rest) := read_declared ds 0 s in
  option_map (app es)
    (read_loop (T := nat) (fun s => fst (readline s)) (fun _ => None) (fun _ s => ([], s)) readline fuel rest).

(* writers for raw elements: every element re-emits the text it consumed *)
Definition write_raw (es : list (option nat * str)) : str := concat (map snd es).
