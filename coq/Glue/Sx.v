(* Exchange format between the harness and the model: trees of integers.
   Every model entry point has type [sx -> sx]; decoding from and encoding to
   [sx] is written in Gallina, so that the same entry point can be run by the
   extracted OCaml driver and by [Eval vm_compute] inside Coq. *)
From Coq Require Import ZArith NArith List String Ascii Bool.
Import ListNotations.
Local Open Scope Z_scope.

Inductive sx : Type :=
| I (z : Z)
| L (l : list sx).

Definition sxZ (s : sx) : Z := match s with I z => z | L _ => 0 end.
Definition sxN (s : sx) : N := Z.to_N (sxZ s).
Definition sxnat (s : sx) : nat := Z.to_nat (sxZ s).
Definition sxL (s : sx) : list sx := match s with I _ => [] | L l => l end.
Definition sxB (s : sx) : bool := negb (sxZ s =? 0).
Definition sxnth (n : nat) (s : sx) : sx := nth n (sxL s) (L []).

(* strings are lists of code points *)
Definition str := list N.
Definition sxS (s : sx) : str := map sxN (sxL s).
Definition Sstr (s : str) : sx := L (map (fun c => I (Z.of_N c)) s).
Definition SB (b : bool) : sx := I (if b then 1 else 0).
Definition SN (n : N) : sx := I (Z.of_N n).
Definition Snat (n : nat) : sx := I (Z.of_nat n).
Definition Sopt {A} (f : A -> sx) (o : option A) : sx :=
  match o with None => L [] | Some a => L [f a] end.
Definition sxopt {A} (f : sx -> A) (s : sx) : option A :=
  match sxL s with [] => None | a :: _ => Some (f a) end.

(* Coq string literals to code-point lists (ASCII only), for names *)
Fixpoint s2l (s : string) : str :=
  match s with
  | EmptyString => []
  | String a r => N_of_ascii a :: s2l r
  end.

Fixpoint str_eqb (a b : str) : bool :=
  match a, b with
  | [], [] => true
  | x :: a', y :: b' => N.eqb x y && str_eqb a' b'
  | _, _ => false
  end.

Lemma str_eqb_eq a b : str_eqb a b = true <-> a = b.
Proof.
  revert b; induction a as [|x a IH]; intros [|y b]; simpl; split; intro H;
    try congruence; try reflexivity.
  - apply andb_true_iff in H as [H1 H2]. apply N.eqb_eq in H1. apply IH in H2. congruence.
  - inversion H; subst. rewrite N.eqb_refl. simpl. apply IH. reflexivity.
Qed.
